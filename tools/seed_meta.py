#!/usr/bin/env python3
"""Compose /verif/seeded/<id>/meta.json from the agent's description, my own verification and the detection runs,
and print the detection table (markdown)."""
import json, os, glob
rows = []
for d in sorted(glob.glob("/verif/seeded/*/")):
    sid = os.path.basename(d.rstrip("/"))
    am = json.load(open(d + "agent_meta.json")) if os.path.exists(d + "agent_meta.json") else {}
    ver = json.load(open(d + "verified.json")) if os.path.exists(d + "verified.json") else {}
    det = json.load(open(d + "detection.json")) if os.path.exists(d + "detection.json") else {}
    caught = sorted(p for p, r in det.items() if r.get("rc") == 1 and any(l.startswith("VIOLATION") for l in r.get("lines", [])))
    missed = sorted(p for p, r in det.items() if r.get("rc") == 0)
    other = sorted(p for p, r in det.items() if r.get("rc") not in (0, 1))
    meta = {
        "seed": sid,
        "property": am.get("property", sid.split("-")[0]),
        "origin": "written by an independent sub-agent that saw only the property text and a scratch worktree of /repo",
        "summary": am.get("summary", ""),
        "needs_to_manifest": am.get("needs") or am.get("needs_to_manifest", ""),
        "files": am.get("files", []),
        "demonstration": {"file": "demo.rs", "location_in_repo": ver.get("demo_location", am.get("demo_location", "derive/tests/demo_seed.rs")),
                          "command": ver.get("demo_command", am.get("demo_command", "cargo test -p pest_typed_derive --test demo_seed --offline"))},
        "what_i_ran": ver.get("commands", []),
        "verified": {"repository_suite_with_patch": f"{ver.get('tests_passed')} passed, {ver.get('tests_failed')} failed",
                     "demo_with_patch_exit": ver.get("demo_with_patch_rc"), "demo_without_patch_exit": ver.get("demo_without_patch_rc")},
        "detected_by_quick_checks": caught,
        "not_detected_by": missed,
        "note": (open(d + "note.txt").read().strip() if os.path.exists(d + "note.txt") else ""),
        "first_counterexamples": {p: (det[p].get("first") or det[p].get("lines") or [""])[0][:400] for p in caught},
    }
    json.dump(meta, open(d + "meta.json", "w"), indent=1, ensure_ascii=False)
    rows.append((sid, meta["property"], (meta["summary"] or "").replace("|", "/")[:110], ", ".join(caught) or "-", ", ".join(missed) or "", ", ".join(other)))
print("| seed | breaks | change | caught by (quick) | run without alarm | other |")
print("|---|---|---|---|---|---|")
for r in rows:
    print("| " + " | ".join(r) + " |")

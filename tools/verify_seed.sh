#!/bin/bash
# verify_seed.sh <worktree> <mutant dir (patch.diff, demo.rs, meta.json)> <seed id>
# Confirms independently: the patch applies, the repository's test suite passes with it, the
# demonstration fails with it and passes without it; then stores the seed under /verif/seeded/<id>/.
set -u
WT=$1; M=$2; ID=$3
cd "$WT" || exit 2
git checkout -q -- . ; rm -f derive/tests/demo_seed.rs
git apply --check "$M/patch.diff" || { echo "RESULT $ID patch-does-not-apply"; exit 1; }
git apply "$M/patch.diff"
cargo test --workspace --no-fail-fast --offline > /tmp/vs_$ID.tests.log 2>&1; T=$?
FAILED=$(grep -E "^test result" /tmp/vs_$ID.tests.log | awk '{f+=$6} END {print f+0}')
PASSED=$(grep -E "^test result" /tmp/vs_$ID.tests.log | awk '{s+=$4} END {print s+0}')
cp "$M/demo.rs" derive/tests/demo_seed.rs
cargo test -p pest_typed_derive --test demo_seed --offline > /tmp/vs_$ID.demo_with.log 2>&1; DW=$?
git checkout -q -- main generator derive/src
cargo test -p pest_typed_derive --test demo_seed --offline > /tmp/vs_$ID.demo_without.log 2>&1; DO=$?
rm -f derive/tests/demo_seed.rs
echo "RESULT $ID suite_rc=$T passed=$PASSED failed=$FAILED demo_with_patch_rc=$DW demo_without_patch_rc=$DO"
if [ $T -eq 0 ] && [ $FAILED -eq 0 ] && [ $DW -ne 0 ] && [ $DO -eq 0 ]; then
  mkdir -p /verif/seeded/$ID
  cp "$M/patch.diff" /verif/seeded/$ID/patch.diff
  cp "$M/demo.rs" /verif/seeded/$ID/demo.rs
  cp "$M/meta.json" /verif/seeded/$ID/agent_meta.json
  echo "{\"suite_rc\": $T, \"tests_passed\": $PASSED, \"tests_failed\": $FAILED, \"demo_with_patch_rc\": $DW, \"demo_without_patch_rc\": $DO, \"commands\": [\"git apply patch.diff\", \"cargo test --workspace --no-fail-fast --offline\", \"cp demo.rs derive/tests/demo_seed.rs && cargo test -p pest_typed_derive --test demo_seed --offline\"]}" > /verif/seeded/$ID/verified.json
  echo "STORED $ID"
else
  echo "REJECTED $ID"
fi

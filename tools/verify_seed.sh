#!/bin/bash
# verify_seed.sh <worktree> <mutant dir (patch.diff, demo.rs, meta.json)> <seed id>
# Confirms independently: the patch applies, the repository's test suite passes with it, the
# demonstration fails with it and passes without it; then stores the seed under /verif/seeded/<id>/.
set -u
WT=$1; M=$2; ID=$3
cd "$WT" || exit 2
LOC=$(python3 -c "import json,sys; m=json.load(open('$M/meta.json')); print(m.get('demo_location') or 'derive/tests/demo_seed.rs')" 2>/dev/null || echo derive/tests/demo_seed.rs)
CMD=$(python3 -c "import json,sys; m=json.load(open('$M/meta.json')); print(m.get('demo_command') or 'cargo test -p pest_typed_derive --test demo_seed --offline')" 2>/dev/null || echo "cargo test -p pest_typed_derive --test demo_seed --offline")
LOC=${LOC#$WT/}
case "$LOC" in /*) echo "RESULT $ID bad-demo-location $LOC"; exit 1;; esac
git checkout -q -- . ; rm -f "$LOC"
git apply --check "$M/patch.diff" || { echo "RESULT $ID patch-does-not-apply"; exit 1; }
git apply "$M/patch.diff"
cargo test --workspace --no-fail-fast --offline > /tmp/vs_$ID.tests.log 2>&1; T=$?
FAILED=$(grep -E "^test result" /tmp/vs_$ID.tests.log | awk '{f+=$6} END {print f+0}')
PASSED=$(grep -E "^test result" /tmp/vs_$ID.tests.log | awk '{s+=$4} END {print s+0}')
# generator/tests/generator.rs::{grammar,syntax} both shell out to `cargo fmt --all` and race with each other
# (a flake of the repository's own suite): when they are the only failures, re-run them serially
ONLY_GEN=$(grep -E "^test .* FAILED" /tmp/vs_$ID.tests.log | grep -v -E "^test (syntax|grammar) |^test result" | wc -l)
if [ $FAILED -gt 0 ] && [ $ONLY_GEN -eq 0 ]; then
  if cargo test -p pest_typed_generator --test generator --offline -- --test-threads 1 >> /tmp/vs_$ID.tests.log 2>&1; then
    PASSED=$((PASSED+FAILED)); FAILED=0; T=0
  fi
fi
mkdir -p "$(dirname "$LOC")"; cp "$M/demo.rs" "$LOC"
(cd "$WT" && eval "$CMD") > /tmp/vs_$ID.demo_with.log 2>&1; DW=$?
git checkout -q -- main generator derive
(cd "$WT" && eval "$CMD") > /tmp/vs_$ID.demo_without.log 2>&1; DO=$?
rm -f "$LOC"
echo "RESULT $ID suite_rc=$T passed=$PASSED failed=$FAILED demo_with_patch_rc=$DW demo_without_patch_rc=$DO loc=$LOC"
if [ $T -eq 0 ] && [ $FAILED -eq 0 ] && [ $DW -ne 0 ] && [ $DO -eq 0 ]; then
  mkdir -p /verif/seeded/$ID
  cp "$M/patch.diff" /verif/seeded/$ID/patch.diff
  cp "$M/demo.rs" /verif/seeded/$ID/demo.rs
  cp "$M/meta.json" /verif/seeded/$ID/agent_meta.json
  python3 - <<PY
import json
json.dump({"suite_rc": $T, "tests_passed": $PASSED, "tests_failed": $FAILED, "demo_with_patch_rc": $DW, "demo_without_patch_rc": $DO,
 "demo_location": "$LOC", "demo_command": """$CMD""",
 "commands": ["git apply patch.diff", "cargo test --workspace --no-fail-fast --offline", "cp demo.rs $LOC && $CMD"]}, open("/verif/seeded/$ID/verified.json","w"), indent=1)
PY
  echo "STORED $ID"
else
  echo "REJECTED $ID"
fi

#!/bin/bash
# seed_pipeline.sh <worktree> <property> <prefix>   e.g. /tmp/w2_C05 C05 r2
# For every _out/m<k> of the worktree: verify independently (verify_seed.sh), store as <property>-<prefix>m<k>,
# then run the property's quick check against it in the seed lab (serialized with a lock).
WT=$1; P=$2; PRE=$3; shift 3; EXTRA="$@"
for M in "$WT"/_out/m*; do
  [ -d "$M" ] || continue
  K=$(basename "$M")
  ID="$P-$PRE$K"
  (cd /tmp && /verif/tools/verify_seed.sh "$WT" "$M" "$ID") 2>&1 | grep -E "RESULT|STORED|REJECTED"
  if [ -d /verif/seeded/$ID ]; then
    flock /tmp/seedlab.lock env SEEDLAB=1 /verif/tools/try_seed.py "$ID" "$P" $EXTRA 2>&1 | cut -c1-300
  fi
done

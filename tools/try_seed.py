#!/usr/bin/env python3
"""try_seed.py <seed id> <property ids...>

Apply /verif/seeded/<id>/patch.diff to the subject tree, run the quick checks, undo.
By default works on /repo with /verif (as the task prescribes: apply, run, undo straight afterwards).
With SEEDLAB=1 it works in a private lab instead (copy of /verif under /tmp/seedlab/verif whose `subject`
symlink points at the scratch worktree /tmp/seedlab/repo), so that /repo stays untouched while other work
goes on; the lab is refreshed from /verif on every call."""
import subprocess, sys, json, os, time
sid = sys.argv[1]; props = sys.argv[2:]
lab = os.environ.get("SEEDLAB") == "1"
if lab:
    os.makedirs("/tmp/seedlab", exist_ok=True)
    if not os.path.exists("/tmp/seedlab/repo"):
        subprocess.run(["git", "-C", "/repo", "worktree", "add", "-q", "--detach", "/tmp/seedlab/repo", "HEAD"], check=True)
    head = subprocess.run(["git", "-C", "/repo", "rev-parse", "HEAD"], capture_output=True, text=True).stdout.strip()
    subprocess.run(["git", "-C", "/tmp/seedlab/repo", "checkout", "-q", "--detach", head], check=True)
    # the lab uses the *committed* state of /verif (edits in progress do not disturb it)
    os.makedirs("/tmp/seedlab/verif", exist_ok=True)
    subprocess.run("git -C /verif archive HEAD | tar -x -C /tmp/seedlab/verif", shell=True, check=True)
    if os.path.islink("/tmp/seedlab/verif/subject") or os.path.exists("/tmp/seedlab/verif/subject"):
        os.remove("/tmp/seedlab/verif/subject")
    os.symlink("/tmp/seedlab/repo", "/tmp/seedlab/verif/subject")
    REPO, VERIF = "/tmp/seedlab/repo", "/tmp/seedlab/verif"
else:
    REPO, VERIF = "/repo", "/verif"
patch = f"/verif/seeded/{sid}/patch.diff"
st = subprocess.run(["git", "-C", REPO, "status", "--porcelain"], capture_output=True, text=True).stdout.strip()
if st:
    print("refusing:", REPO, "is not clean:", st); sys.exit(2)
r = subprocess.run(["git", "-C", REPO, "apply", patch])
if r.returncode != 0:
    print("patch does not apply"); sys.exit(2)
res = {}
try:
    for p in props:
        t0 = time.time()
        r = subprocess.run([f"{VERIF}/check", p, "--tier", "quick"], cwd=VERIF, capture_output=True, text=True)
        lines = [l for l in r.stdout.splitlines() if l.startswith(("VIOLATION", "OK ", "MACHINERY", "KNOWN"))]
        first = [l for l in r.stderr.splitlines() if l.startswith("[violation]")][:1]
        res[p] = {"rc": r.returncode, "lines": [l[:400] for l in lines[:3]], "first": [f[:600] for f in first], "wall": round(time.time() - t0, 1)}
        print(sid, p, r.returncode, [l[:200] for l in lines[:2]], [f[:300] for f in first[:1]], flush=True)
finally:
    subprocess.run(["git", "-C", REPO, "checkout", "--", "."])
out = f"/verif/seeded/{sid}/detection.json"
old = json.load(open(out)) if os.path.exists(out) else {}
old.update(res)
json.dump(old, open(out, "w"), indent=1)

//! Minimal JSON value + writer (no external dependency).
use std::collections::BTreeMap;
use std::fmt::Write;

#[derive(Clone, Debug, PartialEq)]
pub enum J {
    Null,
    Bool(bool),
    Int(i64),
    Num(f64),
    Str(String),
    Arr(Vec<J>),
    Obj(BTreeMap<String, J>),
}

impl J {
    pub fn obj() -> J {
        J::Obj(BTreeMap::new())
    }
    pub fn set(&mut self, k: &str, v: J) -> &mut J {
        if let J::Obj(m) = self {
            m.insert(k.to_string(), v);
        }
        self
    }
    pub fn s(v: &str) -> J {
        J::Str(v.to_string())
    }
    pub fn i(v: u64) -> J {
        J::Int(v as i64)
    }
    pub fn arr_s(v: &[String]) -> J {
        J::Arr(v.iter().map(|s| J::Str(s.clone())).collect())
    }
    pub fn write(&self, out: &mut String) {
        match self {
            J::Null => out.push_str("null"),
            J::Bool(b) => out.push_str(if *b { "true" } else { "false" }),
            J::Int(i) => {
                let _ = write!(out, "{}", i);
            }
            J::Num(f) => {
                let _ = write!(out, "{}", f);
            }
            J::Str(s) => {
                out.push('"');
                for c in s.chars() {
                    match c {
                        '"' => out.push_str("\\\""),
                        '\\' => out.push_str("\\\\"),
                        '\n' => out.push_str("\\n"),
                        '\r' => out.push_str("\\r"),
                        '\t' => out.push_str("\\t"),
                        c if (c as u32) < 0x20 => {
                            let _ = write!(out, "\\u{:04x}", c as u32);
                        }
                        c => out.push(c),
                    }
                }
                out.push('"');
            }
            J::Arr(v) => {
                out.push('[');
                for (i, x) in v.iter().enumerate() {
                    if i > 0 {
                        out.push(',');
                    }
                    x.write(out);
                }
                out.push(']');
            }
            J::Obj(m) => {
                out.push('{');
                for (i, (k, v)) in m.iter().enumerate() {
                    if i > 0 {
                        out.push(',');
                    }
                    J::Str(k.clone()).write(out);
                    out.push(':');
                    v.write(out);
                }
                out.push('}');
            }
        }
    }
    pub fn to_string(&self) -> String {
        let mut s = String::new();
        self.write(&mut s);
        s
    }
}

//! Grammar representation shared by the reference machine `M` (module `m`) and the
//! model of pest `M_pest` (module `mpest`).
//!
//! The grammar is obtained from `pest_meta::parse_and_optimize`, i.e. it is *exactly* the
//! optimized AST that both `pest_derive` and (with `pest_optimizer = true`) `pest_typed_derive`
//! translate.  `Seq`/`Choice` chains are flattened along the right spine only, the way
//! pest-typed's generator (`walk!`) and pest's generator do; `RestoreOnErr` wrappers are kept as
//! nodes (`Restore`) so that `M_pest` can honour them and `M` can ignore them.

use pest_meta::ast::RuleType;
use pest_meta::optimizer::{OptimizedExpr, OptimizedRule};
use std::collections::HashMap;

/// 0 = EOI, user rule k (grammar order) = k + 1.
pub type RuleId = u16;
pub const EOI_ID: RuleId = 0;

#[derive(Clone, Copy, Debug, PartialEq, Eq, Hash)]
pub enum Kind {
    Normal,
    Silent,
    Atomic,
    Compound,
    NonAtomic,
}

impl Kind {
    pub fn sigil(self) -> &'static str {
        match self {
            Kind::Normal => "",
            Kind::Silent => "_",
            Kind::Atomic => "@",
            Kind::Compound => "$",
            Kind::NonAtomic => "!",
        }
    }
    pub fn letter(self) -> char {
        match self {
            Kind::Normal => 'N',
            Kind::Silent => 'S',
            Kind::Atomic => 'A',
            Kind::Compound => 'C',
            Kind::NonAtomic => 'X',
        }
    }
}

#[derive(Clone, Debug)]
pub enum Builtin {
    Any,
    Soi,
    Eoi,
    Peek,
    PeekAll,
    Pop,
    PopAll,
    Drop,
    Newline,
    /// ASCII_* classes: one character inside any of the inclusive ranges.
    Ranges(&'static [(char, char)]),
    /// Unicode property, by pest name.
    Unicode(&'static str),
}

#[derive(Clone, Debug)]
pub enum Target {
    Rule(usize),
    Builtin(Builtin),
}

#[derive(Clone, Debug)]
pub enum Ex {
    Str(String),
    Insens(String),
    Range(char, char),
    Ident(String, Target),
    PeekSlice(i32, Option<i32>),
    PosPred(Box<Node>),
    NegPred(Box<Node>),
    Seq(Vec<Node>),
    Choice(Vec<Node>),
    Opt(Box<Node>),
    Rep(Box<Node>),
    RepOnce(Box<Node>),
    /// counted repetition of the *unoptimized* AST: (min, max)
    RepCount(Box<Node>, u32, Option<u32>),
    Skip(Vec<String>),
    Push(Box<Node>),
    Restore(Box<Node>),
}

#[derive(Clone, Debug)]
pub struct Node {
    pub id: u32,
    pub ex: Ex,
}

#[derive(Clone, Debug)]
pub struct RuleDef {
    pub name: String,
    pub kind: Kind,
    pub body: Node,
    /// rule is named WHITESPACE or COMMENT
    pub is_skip_rule: bool,
}

#[derive(Clone, Debug)]
pub struct Grammar {
    pub src: String,
    pub rules: Vec<RuleDef>,
    pub by_name: HashMap<String, usize>,
    pub whitespace: Option<usize>,
    pub comment: Option<usize>,
    pub n_nodes: u32,
}

pub fn builtin_by_name(name: &str) -> Option<Builtin> {
    Some(match name {
        "ANY" => Builtin::Any,
        "SOI" => Builtin::Soi,
        "EOI" => Builtin::Eoi,
        "PEEK" => Builtin::Peek,
        "PEEK_ALL" => Builtin::PeekAll,
        "POP" => Builtin::Pop,
        "POP_ALL" => Builtin::PopAll,
        "DROP" => Builtin::Drop,
        "NEWLINE" => Builtin::Newline,
        "ASCII_DIGIT" => Builtin::Ranges(&[('0', '9')]),
        "ASCII_NONZERO_DIGIT" => Builtin::Ranges(&[('1', '9')]),
        "ASCII_BIN_DIGIT" => Builtin::Ranges(&[('0', '1')]),
        "ASCII_OCT_DIGIT" => Builtin::Ranges(&[('0', '7')]),
        "ASCII_HEX_DIGIT" => Builtin::Ranges(&[('0', '9'), ('a', 'f'), ('A', 'F')]),
        "ASCII_ALPHA_LOWER" => Builtin::Ranges(&[('a', 'z')]),
        "ASCII_ALPHA_UPPER" => Builtin::Ranges(&[('A', 'Z')]),
        "ASCII_ALPHA" => Builtin::Ranges(&[('a', 'z'), ('A', 'Z')]),
        "ASCII_ALPHANUMERIC" => Builtin::Ranges(&[('a', 'z'), ('A', 'Z'), ('0', '9')]),
        "ASCII" => Builtin::Ranges(&[('\x00', '\x7f')]),
        other => {
            let found = pest::unicode::unicode_property_names().find(|n| *n == other)?;
            Builtin::Unicode(found)
        }
    })
}

pub const BUILTIN_NAMES: &[&str] = &[
    "ANY",
    "SOI",
    "EOI",
    "PEEK",
    "PEEK_ALL",
    "POP",
    "POP_ALL",
    "DROP",
    "NEWLINE",
    "ASCII_DIGIT",
    "ASCII_NONZERO_DIGIT",
    "ASCII_BIN_DIGIT",
    "ASCII_OCT_DIGIT",
    "ASCII_HEX_DIGIT",
    "ASCII_ALPHA_LOWER",
    "ASCII_ALPHA_UPPER",
    "ASCII_ALPHA",
    "ASCII_ALPHANUMERIC",
    "ASCII",
];

struct Conv<'a> {
    by_name: &'a HashMap<String, usize>,
    next_id: u32,
    errors: Vec<String>,
}

impl<'a> Conv<'a> {
    fn node(&mut self, ex: Ex) -> Node {
        let id = self.next_id;
        self.next_id += 1;
        Node { id, ex }
    }
    fn conv(&mut self, e: &OptimizedExpr) -> Node {
        match e {
            OptimizedExpr::Str(s) => self.node(Ex::Str(s.clone())),
            OptimizedExpr::Insens(s) => self.node(Ex::Insens(s.clone())),
            OptimizedExpr::Range(a, b) => {
                let a = a.chars().next().unwrap();
                let b = b.chars().next().unwrap();
                self.node(Ex::Range(a, b))
            }
            OptimizedExpr::Ident(name) => {
                let target = if let Some(i) = self.by_name.get(name) {
                    Target::Rule(*i)
                } else if let Some(b) = builtin_by_name(name) {
                    Target::Builtin(b)
                } else {
                    self.errors.push(format!("undefined rule {}", name));
                    Target::Builtin(Builtin::Any)
                };
                self.node(Ex::Ident(name.clone(), target))
            }
            OptimizedExpr::PeekSlice(a, b) => self.node(Ex::PeekSlice(*a, *b)),
            OptimizedExpr::PosPred(e) => {
                let n = self.conv(e);
                self.node(Ex::PosPred(Box::new(n)))
            }
            OptimizedExpr::NegPred(e) => {
                let n = self.conv(e);
                self.node(Ex::NegPred(Box::new(n)))
            }
            OptimizedExpr::Seq(_, _) => {
                let mut items = vec![];
                let mut cur = e;
                while let OptimizedExpr::Seq(l, r) = cur {
                    items.push(self.conv(l));
                    cur = r;
                }
                items.push(self.conv(cur));
                self.node(Ex::Seq(items))
            }
            OptimizedExpr::Choice(_, _) => {
                let mut items = vec![];
                let mut cur = e;
                while let OptimizedExpr::Choice(l, r) = cur {
                    items.push(self.conv(l));
                    cur = r;
                }
                items.push(self.conv(cur));
                self.node(Ex::Choice(items))
            }
            OptimizedExpr::Opt(e) => {
                let n = self.conv(e);
                self.node(Ex::Opt(Box::new(n)))
            }
            OptimizedExpr::Rep(e) => {
                let n = self.conv(e);
                self.node(Ex::Rep(Box::new(n)))
            }
            OptimizedExpr::Skip(v) => self.node(Ex::Skip(v.clone())),
            OptimizedExpr::Push(e) => {
                let n = self.conv(e);
                self.node(Ex::Push(Box::new(n)))
            }
            OptimizedExpr::RestoreOnErr(e) => {
                let n = self.conv(e);
                self.node(Ex::Restore(Box::new(n)))
            }
            #[cfg(feature = "extras")]
            OptimizedExpr::RepOnce(e) => {
                let n = self.conv(e);
                self.node(Ex::RepOnce(Box::new(n)))
            }
            // a node tag does not change what is matched
            #[cfg(feature = "extras")]
            OptimizedExpr::NodeTag(e, _) => self.conv(e),
            #[allow(unreachable_patterns)]
            _ => {
                self.errors.push("unsupported optimized expression".to_string());
                self.node(Ex::Str(String::new()))
            }
        }
    }
}

impl<'a> Conv<'a> {
    /// Conversion of the *unoptimized* AST (what the generator translates with `pest_optimizer = false`).
    fn conv_raw(&mut self, e: &pest_meta::ast::Expr) -> Node {
        use pest_meta::ast::Expr;
        match e {
            Expr::Str(s) => self.node(Ex::Str(s.clone())),
            Expr::Insens(s) => self.node(Ex::Insens(s.clone())),
            Expr::Range(a, b) => {
                let a = a.chars().next().unwrap();
                let b = b.chars().next().unwrap();
                self.node(Ex::Range(a, b))
            }
            Expr::Ident(name) => {
                let target = if let Some(i) = self.by_name.get(name) {
                    Target::Rule(*i)
                } else if let Some(b) = builtin_by_name(name) {
                    Target::Builtin(b)
                } else {
                    self.errors.push(format!("undefined rule {}", name));
                    Target::Builtin(Builtin::Any)
                };
                self.node(Ex::Ident(name.clone(), target))
            }
            Expr::PeekSlice(a, b) => self.node(Ex::PeekSlice(*a, *b)),
            Expr::PosPred(e) => {
                let n = self.conv_raw(e);
                self.node(Ex::PosPred(Box::new(n)))
            }
            Expr::NegPred(e) => {
                let n = self.conv_raw(e);
                self.node(Ex::NegPred(Box::new(n)))
            }
            Expr::Seq(_, _) => {
                let mut items = vec![];
                let mut cur = e;
                while let Expr::Seq(l, r) = cur {
                    items.push(self.conv_raw(l));
                    cur = r;
                }
                items.push(self.conv_raw(cur));
                self.node(Ex::Seq(items))
            }
            Expr::Choice(_, _) => {
                let mut items = vec![];
                let mut cur = e;
                while let Expr::Choice(l, r) = cur {
                    items.push(self.conv_raw(l));
                    cur = r;
                }
                items.push(self.conv_raw(cur));
                self.node(Ex::Choice(items))
            }
            Expr::Opt(e) => {
                let n = self.conv_raw(e);
                self.node(Ex::Opt(Box::new(n)))
            }
            Expr::Rep(e) => {
                let n = self.conv_raw(e);
                self.node(Ex::Rep(Box::new(n)))
            }
            Expr::RepOnce(e) => {
                let n = self.conv_raw(e);
                self.node(Ex::RepOnce(Box::new(n)))
            }
            Expr::RepExact(e, k) => {
                let n = self.conv_raw(e);
                self.node(Ex::RepCount(Box::new(n), *k, Some(*k)))
            }
            Expr::RepMin(e, k) => {
                let n = self.conv_raw(e);
                self.node(Ex::RepCount(Box::new(n), *k, None))
            }
            Expr::RepMax(e, k) => {
                let n = self.conv_raw(e);
                self.node(Ex::RepCount(Box::new(n), 0, Some(*k)))
            }
            Expr::RepMinMax(e, a, b) => {
                let n = self.conv_raw(e);
                self.node(Ex::RepCount(Box::new(n), *a, Some(*b)))
            }
            Expr::Skip(v) => self.node(Ex::Skip(v.clone())),
            Expr::Push(e) => {
                let n = self.conv_raw(e);
                self.node(Ex::Push(Box::new(n)))
            }
            #[cfg(feature = "extras")]
            Expr::NodeTag(e, _) => self.conv_raw(e),
        }
    }
}

impl Grammar {
    /// Parse + validate, *without* pest's optimizer: the AST that pest-typed translates with
    /// `pest_optimizer = false` (`e+` and counted repetitions stay single nodes).
    pub fn load_raw(src: &str) -> Result<Grammar, String> {
        let pairs = pest_meta::parser::parse(pest_meta::parser::Rule::grammar_rules, src).map_err(|e| format!("{}", e))?;
        let rules = pest_meta::parser::consume_rules(pairs).map_err(|errs| errs.iter().map(|e| format!("{}", e)).collect::<Vec<_>>().join("\n"))?;
        let mut by_name = HashMap::new();
        for (i, r) in rules.iter().enumerate() {
            by_name.insert(r.name.clone(), i);
        }
        let mut conv = Conv {
            by_name: &by_name,
            next_id: 0,
            errors: vec![],
        };
        let mut defs = vec![];
        for r in &rules {
            let kind = match r.ty {
                RuleType::Normal => Kind::Normal,
                RuleType::Silent => Kind::Silent,
                RuleType::Atomic => Kind::Atomic,
                RuleType::CompoundAtomic => Kind::Compound,
                RuleType::NonAtomic => Kind::NonAtomic,
            };
            let body = conv.conv_raw(&r.expr);
            defs.push(RuleDef {
                name: r.name.clone(),
                kind,
                body,
                is_skip_rule: r.name == "WHITESPACE" || r.name == "COMMENT",
            });
        }
        if !conv.errors.is_empty() {
            return Err(conv.errors.join("; "));
        }
        let n_nodes = conv.next_id;
        let whitespace = by_name.get("WHITESPACE").copied();
        let comment = by_name.get("COMMENT").copied();
        Ok(Grammar {
            src: src.to_string(),
            rules: defs,
            by_name,
            whitespace,
            comment,
            n_nodes,
        })
    }

    /// Parse + validate + optimize with pest_meta, then convert.
    pub fn load(src: &str) -> Result<Grammar, String> {
        let (_, rules) = pest_meta::parse_and_optimize(src).map_err(|errs| {
            errs.iter()
                .map(|e| format!("{}", e))
                .collect::<Vec<_>>()
                .join("\n")
        })?;
        Self::from_optimized(src, &rules)
    }

    pub fn from_optimized(src: &str, rules: &[OptimizedRule]) -> Result<Grammar, String> {
        let mut by_name = HashMap::new();
        for (i, r) in rules.iter().enumerate() {
            by_name.insert(r.name.clone(), i);
        }
        let mut conv = Conv {
            by_name: &by_name,
            next_id: 0,
            errors: vec![],
        };
        let mut defs = vec![];
        for r in rules {
            let kind = match r.ty {
                RuleType::Normal => Kind::Normal,
                RuleType::Silent => Kind::Silent,
                RuleType::Atomic => Kind::Atomic,
                RuleType::CompoundAtomic => Kind::Compound,
                RuleType::NonAtomic => Kind::NonAtomic,
            };
            let body = conv.conv(&r.expr);
            defs.push(RuleDef {
                name: r.name.clone(),
                kind,
                body,
                is_skip_rule: r.name == "WHITESPACE" || r.name == "COMMENT",
            });
        }
        if !conv.errors.is_empty() {
            return Err(conv.errors.join("; "));
        }
        let n_nodes = conv.next_id;
        let whitespace = by_name.get("WHITESPACE").copied();
        let comment = by_name.get("COMMENT").copied();
        Ok(Grammar {
            src: src.to_string(),
            rules: defs,
            by_name,
            whitespace,
            comment,
            n_nodes,
        })
    }

    pub fn rule_id(&self, idx: usize) -> RuleId {
        (idx + 1) as RuleId
    }
    pub fn rule_name(&self, id: RuleId) -> &str {
        if id == EOI_ID {
            "EOI"
        } else {
            &self.rules[id as usize - 1].name
        }
    }
    pub fn kind_of(&self, id: RuleId) -> Option<Kind> {
        if id == EOI_ID {
            None
        } else {
            Some(self.rules[id as usize - 1].kind)
        }
    }
    pub fn has_skip(&self) -> bool {
        self.whitespace.is_some() || self.comment.is_some()
    }
}

/// Pretty printer (pest syntax) for an expression node, used in reports.
pub fn show(n: &Node) -> String {
    match &n.ex {
        Ex::Str(s) => format!("{:?}", s),
        Ex::Insens(s) => format!("^{:?}", s),
        Ex::Range(a, b) => format!("'{}'..'{}'", a, b),
        Ex::Ident(name, _) => name.clone(),
        Ex::PeekSlice(a, Some(b)) => format!("PEEK[{}..{}]", a, b),
        Ex::PeekSlice(a, None) => format!("PEEK[{}..]", a),
        Ex::PosPred(e) => format!("&{}", show(e)),
        Ex::NegPred(e) => format!("!{}", show(e)),
        Ex::Seq(v) => format!("({})", v.iter().map(show).collect::<Vec<_>>().join(" ~ ")),
        Ex::Choice(v) => format!("({})", v.iter().map(show).collect::<Vec<_>>().join(" | ")),
        Ex::Opt(e) => format!("{}?", show(e)),
        Ex::Rep(e) => format!("{}*", show(e)),
        Ex::RepOnce(e) => format!("{}+", show(e)),
        Ex::RepCount(e, a, Some(b)) => format!("{}{{{},{}}}", show(e), a, b),
        Ex::RepCount(e, a, None) => format!("{}{{{},}}", show(e), a),
        Ex::Skip(v) => format!("SKIP_UNTIL{:?}", v),
        Ex::Push(e) => format!("PUSH({})", show(e)),
        Ex::Restore(e) => format!("RESTORE({})", show(e)),
    }
}

//! Reference models and enumeration helpers for the pest-typed explorers.
pub mod enumerate;
pub mod grammar;
pub mod m;
pub mod mpest;
pub mod json;

//! `M`: the reference PEG machine ("the spec").
//!
//! Value semantics: every alternative, optional, iteration and predicate operand is evaluated
//! from the caller's `(pos, stack)` *value*; a failed attempt therefore cannot leave a trace by
//! construction.  Empty-stack PEEK/POP/DROP and out-of-range slices fail.  See DESIGN.md 2.1.

use crate::grammar::*;
use std::collections::{HashMap, HashSet};
use std::rc::Rc;

#[derive(Clone, Copy, Debug, PartialEq, Eq, Hash)]
pub enum Atom {
    NonAtomic,
    Atomic,
    Compound,
}

/// One stack entry: a slice of the input (`ext == false`) or of the external text that holds the
/// pre-populated entries (`ext == true`).
#[derive(Clone, Copy, Debug, PartialEq, Eq, Hash)]
pub struct Item {
    pub ext: bool,
    pub a: u32,
    pub b: u32,
}

pub type Stk = Rc<Vec<Item>>;

#[derive(Clone, Debug, PartialEq, Eq, Hash)]
pub struct Tok {
    pub rule: RuleId,
    pub start: usize,
    pub end: usize,
    pub children: Vec<Tok>,
}

impl Tok {
    pub fn count(&self) -> usize {
        1 + self.children.iter().map(|c| c.count()).sum::<usize>()
    }
    pub fn shift(&mut self, by: usize) {
        self.start += by;
        self.end += by;
        for c in self.children.iter_mut() {
            c.shift(by);
        }
    }
}

pub fn show_toks(g: &Grammar, toks: &[Tok]) -> String {
    fn rec(g: &Grammar, t: &Tok, out: &mut String) {
        out.push_str(&format!("{}[{}..{}]", g.rule_name(t.rule), t.start, t.end));
        if !t.children.is_empty() {
            out.push('(');
            for (i, c) in t.children.iter().enumerate() {
                if i > 0 {
                    out.push(' ');
                }
                rec(g, c, out);
            }
            out.push(')');
        }
    }
    let mut s = String::new();
    for (i, t) in toks.iter().enumerate() {
        if i > 0 {
            s.push(' ');
        }
        rec(g, t, &mut s);
    }
    s
}

/// Remove the descendants of tokens whose rule is atomic or compound-atomic
/// (the documented difference between pest-typed and pest).
pub fn prune(g: &Grammar, toks: &mut Vec<Tok>) {
    for t in toks.iter_mut() {
        match g.kind_of(t.rule) {
            Some(Kind::Atomic) | Some(Kind::Compound) => t.children.clear(),
            _ => prune(g, &mut t.children),
        }
    }
}

/// Structure of a successful match, mirroring the shape of the expression
/// (and therefore the shape of pest-typed's content types).
#[derive(Clone, Debug, PartialEq, Eq)]
pub enum MNode {
    Leaf {
        start: usize,
        end: usize,
    },
    Rule {
        rule: RuleId,
        start: usize,
        end: usize,
        /// pest emits a token for this invocation (outside lookahead)
        emit: bool,
        inner: Box<MNode>,
    },
    Builtin {
        name: String,
        start: usize,
        end: usize,
        /// EOI only: pest emits a token
        emit: bool,
    },
    Seq(Vec<(Vec<MNode>, MNode)>),
    Choice(usize, Box<MNode>),
    Opt(Option<Box<MNode>>),
    Rep(Vec<(Vec<MNode>, MNode)>),
    Pos(Box<MNode>),
    Neg,
    Push(Box<MNode>),
}

impl MNode {
    pub fn tokens(&self, out: &mut Vec<Tok>) {
        match self {
            MNode::Leaf { .. } | MNode::Neg | MNode::Pos(_) => {}
            MNode::Builtin {
                name,
                start,
                end,
                emit,
            } => {
                if *emit && name == "EOI" {
                    out.push(Tok {
                        rule: EOI_ID,
                        start: *start,
                        end: *end,
                        children: vec![],
                    });
                }
            }
            MNode::Rule {
                rule,
                start,
                end,
                emit,
                inner,
            } => {
                if *emit {
                    let mut ch = vec![];
                    inner.tokens(&mut ch);
                    out.push(Tok {
                        rule: *rule,
                        start: *start,
                        end: *end,
                        children: ch,
                    });
                } else {
                    inner.tokens(out);
                }
            }
            MNode::Seq(v) | MNode::Rep(v) => {
                for (sk, n) in v {
                    for s in sk {
                        s.tokens(out);
                    }
                    n.tokens(out);
                }
            }
            MNode::Choice(_, n) | MNode::Push(n) => n.tokens(out),
            MNode::Opt(o) => {
                if let Some(n) = o {
                    n.tokens(out)
                }
            }
        }
    }
}

/// A rule invocation seen while evaluating (also inside abandoned attempts).
#[derive(Clone, Copy, Debug, PartialEq, Eq, Hash)]
pub struct Inv {
    pub rule: RuleId,
    pub pos: usize,
    /// evaluated under an odd number of negative predicates
    pub negative: bool,
    pub ok: bool,
    /// evaluated inside an implicit skip
    pub in_skip: bool,
    pub atom: Atom,
}

#[derive(Clone, Copy, Debug, PartialEq, Eq, Hash)]
pub enum Construct {
    Alternative,
    Optional,
    Iteration,
    PosPred,
    NegPred,
}

/// An attempt that did not contribute (failed alternative / optional / iteration, or any predicate).
#[derive(Clone, Copy, Debug, PartialEq, Eq, Hash)]
pub struct Backtrack {
    pub construct: Construct,
    /// the abandoned attempt had performed at least one stack operation
    pub touched_stack: bool,
    /// the attempt itself matched (only possible for predicates)
    pub attempt_matched: bool,
    /// nesting depth of backtracking constructs at this point (1 = outermost)
    pub depth: u8,
}

#[derive(Clone, Debug, Default)]
pub struct Stats {
    pub transitions: u64,
    pub states: u64,
}

#[derive(Clone, Debug, PartialEq, Eq)]
pub enum Fail {
    No,
    /// fuel or depth exhausted (grammar not well-founded on this input)
    Diverge,
}

type R = Result<(usize, Stk, MNode), Fail>;

pub struct Machine<'a> {
    pub g: &'a Grammar,
    pub input: &'a str,
    pub ext: &'a str,
    pub trace: Vec<Inv>,
    pub backtracks: Vec<Backtrack>,
    pub record: bool,
    pub count_states: bool,
    pub transitions: u64,
    state_set: HashSet<u64>,
    pub stack_ops: u64,
    pub skip_consumed: u64,
    pub skip_suppressed_at_skippable: u64,
    pub nonprogress: bool,
    pub empty_stack_ops: u64,
    pub oob_slices: u64,
    fuel: u64,
    depth: u32,
    neg_parity: bool,
    skip_depth: u32,
    bt_depth: u8,
    unicode: HashMap<&'static str, Box<dyn Fn(char) -> bool>>,
}

fn mix(mut h: u64, v: u64) -> u64 {
    h ^= v.wrapping_add(0x9e3779b97f4a7c15).wrapping_add(h << 6).wrapping_add(h >> 2);
    h.wrapping_mul(0x100000001b3)
}

impl<'a> Machine<'a> {
    pub fn new(g: &'a Grammar, input: &'a str, ext: &'a str) -> Self {
        Machine {
            g,
            input,
            ext,
            trace: vec![],
            backtracks: vec![],
            record: true,
            count_states: true,
            transitions: 0,
            state_set: HashSet::new(),
            stack_ops: 0,
            skip_consumed: 0,
            skip_suppressed_at_skippable: 0,
            nonprogress: false,
            empty_stack_ops: 0,
            oob_slices: 0,
            fuel: 200_000,
            depth: 0,
            neg_parity: false,
            skip_depth: 0,
            bt_depth: 0,
            unicode: HashMap::new(),
        }
    }

    pub fn states(&self) -> u64 {
        self.state_set.len() as u64
    }

    pub fn text(&self, it: &Item) -> &'a str {
        let src = if it.ext { self.ext } else { self.input };
        &src[it.a as usize..it.b as usize]
    }

    pub fn stack_texts(&self, s: &Stk) -> Vec<String> {
        s.iter().map(|i| self.text(i).to_string()).collect()
    }

    fn starts_with_at(&self, pos: usize, s: &str) -> bool {
        self.input.as_bytes()[pos..].starts_with(s.as_bytes())
    }

    fn next_char(&self, pos: usize) -> Option<char> {
        self.input[pos..].chars().next()
    }

    fn leaf(pos: usize, end: usize, stk: &Stk) -> R {
        Ok((end, stk.clone(), MNode::Leaf { start: pos, end }))
    }

    fn note_state(&mut self, id: u32, pos: usize, stk: &Stk, at: Atom) {
        self.transitions += 1;
        if self.count_states {
            let mut h = mix(0xcbf29ce484222325, id as u64);
            h = mix(h, pos as u64);
            h = mix(h, at as u64 + 1);
            h = mix(h, if self.neg_parity { 7 } else { 3 });
            for it in stk.iter() {
                h = mix(h, ((it.ext as u64) << 40) | ((it.a as u64) << 20) | it.b as u64);
            }
            self.state_set.insert(h);
        }
    }

    fn bt(&mut self, construct: Construct, ops_before: u64, attempt_matched: bool) {
        if self.record {
            self.backtracks.push(Backtrack {
                construct,
                touched_stack: self.stack_ops != ops_before,
                attempt_matched,
                depth: self.bt_depth,
            });
        }
    }

    /// Implicit skip `(WHITESPACE | COMMENT)*` at a NonAtomic position.
    pub fn skip(&mut self, mut pos: usize, stk: &Stk) -> Result<(usize, Stk, Vec<MNode>), Fail> {
        let mut s = stk.clone();
        let mut out = vec![];
        if !self.g.has_skip() {
            return Ok((pos, s, out));
        }
        self.skip_depth += 1;
        let saved_parity = self.neg_parity;
        loop {
            let mut matched = None;
            for idx in [self.g.whitespace, self.g.comment].into_iter().flatten() {
                match self.call_rule(idx, pos, &s, Atom::NonAtomic) {
                    Ok(r) => {
                        matched = Some(r);
                        break;
                    }
                    Err(Fail::No) => {}
                    Err(Fail::Diverge) => {
                        self.skip_depth -= 1;
                        return Err(Fail::Diverge);
                    }
                }
            }
            match matched {
                None => break,
                Some((p2, s2, node)) => {
                    if p2 == pos && *s2 == *s {
                        self.nonprogress = true;
                        break;
                    }
                    self.skip_consumed += (p2 - pos) as u64;
                    pos = p2;
                    s = s2;
                    out.push(node);
                }
            }
        }
        self.neg_parity = saved_parity;
        self.skip_depth -= 1;
        Ok((pos, s, out))
    }

    /// Would the implicit skip consume something at `pos`? (used for non-triviality counting only)
    fn skippable_here(&mut self, pos: usize, stk: &Stk) -> bool {
        if !self.g.has_skip() {
            return false;
        }
        let rec = self.record;
        let cs = self.count_states;
        let tr = self.transitions;
        let ops = self.stack_ops;
        let sc = self.skip_consumed;
        let np = self.nonprogress;
        self.record = false;
        self.count_states = false;
        let r = matches!(self.skip(pos, stk), Ok((p, _, _)) if p > pos);
        self.record = rec;
        self.count_states = cs;
        self.transitions = tr;
        self.stack_ops = ops;
        self.skip_consumed = sc;
        self.nonprogress = np;
        r
    }

    pub fn call_rule(&mut self, idx: usize, pos: usize, stk: &Stk, at_call: Atom) -> R {
        let def = &self.g.rules[idx];
        let (emit, mut body_at) = match def.kind {
            Kind::Normal => (at_call != Atom::Atomic, at_call),
            Kind::Silent => (false, at_call),
            Kind::Atomic => (at_call != Atom::Atomic, Atom::Atomic),
            Kind::Compound => (true, Atom::Compound),
            Kind::NonAtomic => (true, Atom::NonAtomic),
        };
        if def.is_skip_rule && !matches!(def.kind, Kind::Atomic | Kind::Compound) {
            body_at = Atom::Atomic;
        }
        let id = self.g.rule_id(idx);
        let res = self.eval(&def.body, pos, stk, body_at);
        if let Err(Fail::Diverge) = res {
            return res;
        }
        if self.record {
            self.trace.push(Inv {
                rule: id,
                pos,
                negative: self.neg_parity,
                ok: res.is_ok(),
                in_skip: self.skip_depth > 0,
                atom: at_call,
            });
        }
        let (end, s2, inner) = res?;
        Ok((
            end,
            s2,
            MNode::Rule {
                rule: id,
                start: pos,
                end,
                emit,
                inner: Box::new(inner),
            },
        ))
    }

    fn builtin(&mut self, name: &str, b: &Builtin, pos: usize, stk: &Stk, at: Atom) -> R {
        let len = self.input.len();
        let mk = |name: &str, end: usize, stk: Stk, emit: bool| -> R {
            Ok((
                end,
                stk,
                MNode::Builtin {
                    name: name.to_string(),
                    start: pos,
                    end,
                    emit,
                },
            ))
        };
        match b {
            Builtin::Any => match self.next_char(pos) {
                Some(c) => mk(name, pos + c.len_utf8(), stk.clone(), false),
                None => Err(Fail::No),
            },
            Builtin::Soi => {
                if pos == 0 {
                    mk(name, pos, stk.clone(), false)
                } else {
                    Err(Fail::No)
                }
            }
            Builtin::Eoi => {
                let ok = pos == len;
                if self.record {
                    self.trace.push(Inv {
                        rule: EOI_ID,
                        pos,
                        negative: self.neg_parity,
                        ok,
                        in_skip: self.skip_depth > 0,
                        atom: at,
                    });
                }
                if ok {
                    mk(name, pos, stk.clone(), at != Atom::Atomic)
                } else {
                    Err(Fail::No)
                }
            }
            Builtin::Newline => {
                for nl in ["\r\n", "\n", "\r"] {
                    if self.starts_with_at(pos, nl) {
                        return mk(name, pos + nl.len(), stk.clone(), false);
                    }
                }
                Err(Fail::No)
            }
            Builtin::Ranges(rs) => match self.next_char(pos) {
                Some(c) if rs.iter().any(|(a, b)| *a <= c && c <= *b) => {
                    mk(name, pos + c.len_utf8(), stk.clone(), false)
                }
                _ => Err(Fail::No),
            },
            Builtin::Unicode(prop) => {
                let c = match self.next_char(pos) {
                    Some(c) => c,
                    None => return Err(Fail::No),
                };
                if !self.unicode.contains_key(prop) {
                    let f = pest::unicode::by_name(prop).expect("unicode property");
                    self.unicode.insert(prop, f);
                }
                if (self.unicode[prop])(c) {
                    mk(name, pos + c.len_utf8(), stk.clone(), false)
                } else {
                    Err(Fail::No)
                }
            }
            Builtin::Peek => match stk.last() {
                None => {
                    self.empty_stack_ops += 1;
                    Err(Fail::No)
                }
                Some(it) => {
                    let t = self.text(it);
                    if self.starts_with_at(pos, t) {
                        mk(name, pos + t.len(), stk.clone(), false)
                    } else {
                        Err(Fail::No)
                    }
                }
            },
            Builtin::Pop => match stk.last() {
                None => {
                    self.empty_stack_ops += 1;
                    Err(Fail::No)
                }
                Some(it) => {
                    // the implementation pops first and matches afterwards
                    self.stack_ops += 1;
                    let t = self.text(it);
                    if self.starts_with_at(pos, t) {
                        let mut v = (**stk).clone();
                        v.pop();
                        mk(name, pos + t.len(), Rc::new(v), false)
                    } else {
                        Err(Fail::No)
                    }
                }
            },
            Builtin::Drop => match stk.last() {
                None => {
                    self.empty_stack_ops += 1;
                    Err(Fail::No)
                }
                Some(_) => {
                    self.stack_ops += 1;
                    let mut v = (**stk).clone();
                    v.pop();
                    mk(name, pos, Rc::new(v), false)
                }
            },
            Builtin::PeekAll | Builtin::PopAll => {
                let mut p = pos;
                for it in stk.iter().rev() {
                    let t = self.text(it);
                    if self.starts_with_at(p, t) {
                        p += t.len();
                    } else {
                        return Err(Fail::No);
                    }
                }
                if matches!(b, Builtin::PopAll) {
                    if !stk.is_empty() {
                        self.stack_ops += 1;
                    }
                    mk(name, p, Rc::new(vec![]), false)
                } else {
                    mk(name, p, stk.clone(), false)
                }
            }
        }
    }

    pub fn eval(&mut self, n: &Node, pos: usize, stk: &Stk, at: Atom) -> R {
        if self.fuel == 0 || self.depth > 400 {
            return Err(Fail::Diverge);
        }
        self.fuel -= 1;
        self.depth += 1;
        self.note_state(n.id, pos, stk, at);
        let r = self.eval_inner(n, pos, stk, at);
        self.depth -= 1;
        r
    }

    fn eval_inner(&mut self, n: &Node, pos: usize, stk: &Stk, at: Atom) -> R {
        let len = self.input.len();
        match &n.ex {
            Ex::Str(s) => {
                if self.starts_with_at(pos, s) {
                    Self::leaf(pos, pos + s.len(), stk)
                } else {
                    Err(Fail::No)
                }
            }
            Ex::Insens(s) => {
                let end = pos + s.len();
                match self.input.get(pos..end) {
                    Some(p) if p.eq_ignore_ascii_case(s) => Self::leaf(pos, end, stk),
                    _ => Err(Fail::No),
                }
            }
            Ex::Range(a, b) => match self.next_char(pos) {
                Some(c) if *a <= c && c <= *b => Self::leaf(pos, pos + c.len_utf8(), stk),
                _ => Err(Fail::No),
            },
            Ex::Ident(name, target) => match target {
                Target::Rule(idx) => self.call_rule(*idx, pos, stk, at),
                Target::Builtin(b) => self.builtin(name, b, pos, stk, at),
            },
            Ex::PeekSlice(a, b) => {
                let l = stk.len() as i64;
                let norm = |i: i64| -> Option<i64> {
                    if i > l {
                        None
                    } else if i >= 0 {
                        Some(i)
                    } else if l + i >= 0 {
                        Some(l + i)
                    } else {
                        None
                    }
                };
                let start = norm(*a as i64);
                let end = match b {
                    None => Some(l),
                    Some(e) => norm(*e as i64),
                };
                let (start, end) = match (start, end) {
                    (Some(s), Some(e)) => (s, e),
                    _ => {
                        self.oob_slices += 1;
                        return Err(Fail::No);
                    }
                };
                if end <= start {
                    return Self::leaf(pos, pos, stk);
                }
                let mut p = pos;
                for it in &stk[start as usize..end as usize] {
                    let t = self.text(it);
                    if self.starts_with_at(p, t) {
                        p += t.len();
                    } else {
                        return Err(Fail::No);
                    }
                }
                Self::leaf(pos, p, stk)
            }
            Ex::PosPred(e) => {
                let ops = self.stack_ops;
                self.bt_depth += 1;
                let r = self.eval(e, pos, stk, at);
                if let Err(Fail::Diverge) = r {
                    self.bt_depth -= 1;
                    return r;
                }
                self.bt(Construct::PosPred, ops, r.is_ok());
                self.bt_depth -= 1;
                let (_, _, node) = r?;
                Ok((pos, stk.clone(), MNode::Pos(Box::new(node))))
            }
            Ex::NegPred(e) => {
                let ops = self.stack_ops;
                self.bt_depth += 1;
                self.neg_parity = !self.neg_parity;
                let r = self.eval(e, pos, stk, at);
                self.neg_parity = !self.neg_parity;
                if let Err(Fail::Diverge) = r {
                    self.bt_depth -= 1;
                    return r;
                }
                self.bt(Construct::NegPred, ops, r.is_ok());
                self.bt_depth -= 1;
                match r {
                    Ok(_) => Err(Fail::No),
                    Err(_) => Ok((pos, stk.clone(), MNode::Neg)),
                }
            }
            Ex::Seq(items) => {
                let mut p = pos;
                let mut s = stk.clone();
                let mut out = Vec::with_capacity(items.len());
                for (i, item) in items.iter().enumerate() {
                    let mut skipped = vec![];
                    if i > 0 {
                        if at == Atom::NonAtomic {
                            let (p2, s2, sk) = self.skip(p, &s)?;
                            p = p2;
                            s = s2;
                            skipped = sk;
                        } else if self.record && self.skippable_here(p, &s) {
                            self.skip_suppressed_at_skippable += 1;
                        }
                    }
                    let (p2, s2, node) = self.eval(item, p, &s, at)?;
                    p = p2;
                    s = s2;
                    out.push((skipped, node));
                }
                Ok((p, s, MNode::Seq(out)))
            }
            Ex::Choice(items) => {
                self.bt_depth += 1;
                for (i, item) in items.iter().enumerate() {
                    let ops = self.stack_ops;
                    match self.eval(item, pos, stk, at) {
                        Ok((p, s, node)) => {
                            self.bt_depth -= 1;
                            return Ok((p, s, MNode::Choice(i, Box::new(node))));
                        }
                        Err(Fail::Diverge) => {
                            self.bt_depth -= 1;
                            return Err(Fail::Diverge);
                        }
                        Err(Fail::No) => self.bt(Construct::Alternative, ops, false),
                    }
                }
                self.bt_depth -= 1;
                Err(Fail::No)
            }
            Ex::Opt(e) => {
                let ops = self.stack_ops;
                self.bt_depth += 1;
                let r = self.eval(e, pos, stk, at);
                let out = match r {
                    Ok((p, s, node)) => Ok((p, s, MNode::Opt(Some(Box::new(node))))),
                    Err(Fail::Diverge) => Err(Fail::Diverge),
                    Err(Fail::No) => {
                        self.bt(Construct::Optional, ops, false);
                        Ok((pos, stk.clone(), MNode::Opt(None)))
                    }
                };
                self.bt_depth -= 1;
                out
            }
            Ex::Rep(e) | Ex::RepOnce(e) | Ex::RepCount(e, _, _) => {
                let (min, max): (usize, Option<usize>) = match &n.ex {
                    Ex::RepOnce(_) => (1, None),
                    Ex::RepCount(_, a, b) => (*a as usize, b.map(|x| x as usize)),
                    _ => (0, None),
                };
                if let Some(m) = max {
                    if min > m {
                        return Err(Fail::No);
                    }
                }
                let mut p = pos;
                let mut s = stk.clone();
                let mut out: Vec<(Vec<MNode>, MNode)> = vec![];
                self.bt_depth += 1;
                loop {
                    if let Some(m) = max {
                        if out.len() >= m {
                            break;
                        }
                    }
                    let ops = self.stack_ops;
                    let (mut p1, mut s1, mut skipped) = (p, s.clone(), vec![]);
                    if !out.is_empty() {
                        if at == Atom::NonAtomic {
                            match self.skip(p, &s) {
                                Ok((p2, s2, sk)) => {
                                    p1 = p2;
                                    s1 = s2;
                                    skipped = sk;
                                }
                                Err(f) => {
                                    self.bt_depth -= 1;
                                    return Err(f);
                                }
                            }
                        } else if self.record && self.skippable_here(p, &s) {
                            self.skip_suppressed_at_skippable += 1;
                        }
                    }
                    match self.eval(e, p1, &s1, at) {
                        Ok((p2, s2, node)) => {
                            if max.is_none() && p2 == p && *s2 == *s {
                                // no progress: the real loop would never end
                                self.nonprogress = true;
                                out.push((skipped, node));
                                break;
                            }
                            p = p2;
                            s = s2;
                            out.push((skipped, node));
                        }
                        Err(Fail::Diverge) => {
                            self.bt_depth -= 1;
                            return Err(Fail::Diverge);
                        }
                        Err(Fail::No) => {
                            // the skip made before the failing iteration is given back
                            self.bt(Construct::Iteration, ops, false);
                            break;
                        }
                    }
                }
                self.bt_depth -= 1;
                if out.len() < min {
                    return Err(Fail::No);
                }
                Ok((p, s, MNode::Rep(out)))
            }
            Ex::Skip(strings) => {
                let mut from = pos;
                let bytes = self.input.as_bytes();
                let mut found = None;
                while from < len {
                    if self.input.is_char_boundary(from)
                        && strings.iter().any(|s| bytes[from..].starts_with(s.as_bytes()))
                    {
                        found = Some(from);
                        break;
                    }
                    from += 1;
                }
                let end = found.unwrap_or(len);
                Self::leaf(pos, end, stk)
            }
            Ex::Push(e) => {
                let (p, s, node) = self.eval(e, pos, stk, at)?;
                let mut v = (*s).clone();
                v.push(Item {
                    ext: false,
                    a: pos as u32,
                    b: p as u32,
                });
                self.stack_ops += 1;
                Ok((p, Rc::new(v), MNode::Push(Box::new(node))))
            }
            Ex::Restore(e) => self.eval(e, pos, stk, at),
        }
    }
}

/// Result of running `M` on one (rule, input, initial stack).
#[derive(Clone, Debug)]
pub struct MResult {
    /// None = no match; Some((end, final stack, match tree))
    pub ok: Option<(usize, Vec<Item>, MNode)>,
    pub diverged: bool,
    pub nonprogress: bool,
    pub trace: Vec<Inv>,
    pub backtracks: Vec<Backtrack>,
    pub stats: Stats,
    pub skip_consumed: u64,
    pub skip_suppressed: u64,
    pub empty_stack_ops: u64,
    pub oob_slices: u64,
    pub stack_ops: u64,
    /// full parse (C04): Some(true/false) when requested
    pub full_ok: Option<bool>,
    /// offset at which the full-parse EOI test is made
    pub full_eoi_pos: Option<usize>,
}

/// Partial parse of rule `idx` on `input` from the initial stack `init` (entries are slices of `ext`),
/// plus (when `full`) the full-parse verdict of C04.
pub fn run(
    g: &Grammar,
    idx: usize,
    input: &str,
    ext: &str,
    init: &[Item],
    full: bool,
    at_call: Atom,
) -> MResult {
    let mut m = Machine::new(g, input, ext);
    let stk: Stk = Rc::new(init.to_vec());
    let r = m.call_rule(idx, 0, &stk, at_call);
    let diverged = matches!(r, Err(Fail::Diverge));
    let mut full_ok = None;
    let mut full_eoi_pos = None;
    let ok = match r {
        Ok((end, s, node)) => {
            if full {
                let kind = g.rules[idx].kind;
                let mut p = end;
                let mut bad = false;
                if !matches!(kind, Kind::Atomic | Kind::Compound) {
                    match m.skip(end, &s) {
                        Ok((p2, _, _)) => p = p2,
                        Err(_) => bad = true,
                    }
                }
                if !bad {
                    let okk = p == input.len();
                    m.trace.push(Inv {
                        rule: EOI_ID,
                        pos: p,
                        negative: false,
                        ok: okk,
                        in_skip: false,
                        atom: Atom::NonAtomic,
                    });
                    full_ok = Some(okk);
                    full_eoi_pos = Some(p);
                }
            }
            Some((end, (*s).clone(), node))
        }
        Err(_) => {
            if full {
                full_ok = Some(false);
            }
            None
        }
    };
    MResult {
        ok,
        diverged,
        nonprogress: m.nonprogress,
        stats: Stats {
            transitions: m.transitions,
            states: m.states(),
        },
        trace: std::mem::take(&mut m.trace),
        backtracks: std::mem::take(&mut m.backtracks),
        skip_consumed: m.skip_consumed,
        skip_suppressed: m.skip_suppressed_at_skippable,
        empty_stack_ops: m.empty_stack_ops,
        oob_slices: m.oob_slices,
        stack_ops: m.stack_ops,
        full_ok,
        full_eoi_pos,
    }
}

//! Exhaustive enumeration of strings over a small alphabet (length-lexicographic).

/// All strings of length 0..=max_len over `alphabet`, shortest first.
pub fn strings(alphabet: &[char], max_len: usize) -> Vec<String> {
    let mut out = vec![String::new()];
    let mut layer = vec![String::new()];
    for _ in 0..max_len {
        let mut next = Vec::with_capacity(layer.len() * alphabet.len());
        for s in &layer {
            for c in alphabet {
                let mut t = s.clone();
                t.push(*c);
                next.push(t);
            }
        }
        out.extend(next.iter().cloned());
        layer = next;
    }
    out
}

pub fn count(alphabet_len: usize, max_len: usize) -> u64 {
    let mut n = 0u64;
    let mut p = 1u64;
    for _ in 0..=max_len {
        n += p;
        p *= alphabet_len as u64;
    }
    n
}

/// Character boundaries of `s` including 0 and len.
pub fn boundaries(s: &str) -> Vec<usize> {
    let mut v: Vec<usize> = s.char_indices().map(|(i, _)| i).collect();
    v.push(s.len());
    v
}

pub fn escape(s: &str) -> String {
    let mut o = String::new();
    for c in s.chars() {
        match c {
            '\n' => o.push_str("\\n"),
            '\r' => o.push_str("\\r"),
            '\t' => o.push_str("\\t"),
            '\\' => o.push_str("\\\\"),
            '"' => o.push_str("\\\""),
            c if (c as u32) < 0x20 => o.push_str(&format!("\\u{{{:x}}}", c as u32)),
            c => o.push(c),
        }
    }
    o
}

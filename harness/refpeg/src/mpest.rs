//! `M_pest`: a model of the parser that `pest_derive` 2.7.14 generates, read off
//! `pest_generator::generator::{generate_rule, generate_expr, generate_expr_atomic, generate_skip}`
//! and `pest::ParserState`.  It differs from `M` in exactly the places where pest has no defined
//! answer: one mutable stack that is only put back by `RestoreOnErr` wrappers and lookaheads,
//! POP_ALL keeping what it popped when it fails half-way, PEEK/POP panicking on an empty stack.
//!
//! The model is bound to real pest by the conformance run of every explorer case
//! (`pest_derive` parser under `catch_unwind` == `M_pest`): a mismatch is a machinery error.

use crate::grammar::*;
use crate::m::{Atom, Item, Tok};
use std::collections::HashMap;

#[derive(Clone, Debug, PartialEq, Eq)]
pub enum POutcome {
    Ok { end: usize, toks: Vec<Tok> },
    Fail,
    Panic,
    Diverge,
}

#[derive(Clone, Copy, Debug, PartialEq, Eq)]
enum La {
    None,
    Positive,
    Negative,
}

#[derive(Clone, Copy, Debug)]
enum Q {
    Start { pos: usize, end_idx: usize },
    End { rule: RuleId, pos: usize },
}

#[derive(Debug)]
enum Abort {
    Panic,
    Diverge,
}

type Res = Result<bool, Abort>;

pub struct PestModel<'a> {
    g: &'a Grammar,
    input: &'a str,
    ext: &'a str,
    pos: usize,
    stack: pest::Stack<Item>,
    queue: Vec<Q>,
    la: La,
    atom: Atom,
    fuel: u64,
    depth: u32,
    pub transitions: u64,
    unicode: HashMap<&'static str, Box<dyn Fn(char) -> bool>>,
}

impl<'a> PestModel<'a> {
    pub fn new(g: &'a Grammar, input: &'a str, ext: &'a str, init: &[Item]) -> Self {
        let mut stack = pest::Stack::new();
        for it in init {
            stack.push(*it);
        }
        PestModel {
            g,
            input,
            ext,
            pos: 0,
            stack,
            queue: vec![],
            la: La::None,
            atom: Atom::NonAtomic,
            fuel: 200_000,
            depth: 0,
            transitions: 0,
            unicode: HashMap::new(),
        }
    }

    fn text(&self, it: &Item) -> &'a str {
        let src = if it.ext { self.ext } else { self.input };
        &src[it.a as usize..it.b as usize]
    }

    fn match_string(&mut self, s: &str) -> bool {
        if self.input.as_bytes()[self.pos..].starts_with(s.as_bytes()) {
            self.pos += s.len();
            true
        } else {
            false
        }
    }

    fn match_char_by(&mut self, f: impl FnOnce(char) -> bool) -> bool {
        match self.input[self.pos..].chars().next() {
            Some(c) if f(c) => {
                self.pos += c.len_utf8();
                true
            }
            _ => false,
        }
    }

    /// `state.atomic(atomicity, f)`: returns the value to restore, if toggled.
    fn atomic_enter(&mut self, a: Atom) -> Option<Atom> {
        if self.atom != a {
            let old = self.atom;
            self.atom = a;
            Some(old)
        } else {
            None
        }
    }
    fn atomic_leave(&mut self, saved: Option<Atom>) {
        if let Some(old) = saved {
            self.atom = old;
        }
    }

    /// `state.rule(rule, f)` token bookkeeping: returns (queue index, pushed)
    fn rule_enter(&mut self) -> (usize, bool) {
        let index = self.queue.len();
        let push = self.la == La::None && self.atom != Atom::Atomic;
        if push {
            self.queue.push(Q::Start {
                pos: self.pos,
                end_idx: 0,
            });
        }
        (index, push)
    }
    fn rule_leave(&mut self, id: RuleId, index: usize, ok: bool) {
        if self.la == La::None && self.atom != Atom::Atomic {
            if ok {
                let new_index = self.queue.len();
                if let Q::Start { end_idx, .. } = &mut self.queue[index] {
                    *end_idx = new_index;
                }
                self.queue.push(Q::End {
                    rule: id,
                    pos: self.pos,
                });
            } else {
                self.queue.truncate(index);
            }
        }
    }

    fn hidden_skip(&mut self) -> Res {
        if self.atom != Atom::NonAtomic {
            return Ok(true);
        }
        match (self.g.whitespace, self.g.comment) {
            (None, None) => Ok(true),
            (Some(w), None) => {
                while self.call_rule(w)? {}
                Ok(true)
            }
            (None, Some(c)) => {
                while self.call_rule(c)? {}
                Ok(true)
            }
            (Some(w), Some(c)) => {
                // sequence( repeat(WS) . repeat( sequence( COMMENT . repeat(WS) ) ) )
                while self.call_rule(w)? {}
                loop {
                    let ti = self.queue.len();
                    let ip = self.pos;
                    if self.call_rule(c)? {
                        while self.call_rule(w)? {}
                    } else {
                        self.pos = ip;
                        self.queue.truncate(ti);
                        break;
                    }
                }
                Ok(true)
            }
        }
    }

    fn call_rule(&mut self, idx: usize) -> Res {
        let def = &self.g.rules[idx];
        let kind = def.kind;
        let id = self.g.rule_id(idx);
        let outer = match kind {
            Kind::Compound => Some(Atom::Compound),
            Kind::NonAtomic => Some(Atom::NonAtomic),
            _ => None,
        };
        let saved_outer = outer.and_then(|a| self.atomic_enter(a));
        let tok = if kind != Kind::Silent {
            Some(self.rule_enter())
        } else {
            None
        };
        let inner = if kind == Kind::Atomic || (def.is_skip_rule && kind != Kind::Compound) {
            Some(Atom::Atomic)
        } else {
            None
        };
        let saved_inner = inner.and_then(|a| self.atomic_enter(a));
        let static_atomic = matches!(kind, Kind::Atomic | Kind::Compound) || def.is_skip_rule;
        let r = self.eval(&def.body, static_atomic);
        self.atomic_leave(saved_inner);
        let r = match r {
            Ok(ok) => {
                if let Some((index, _)) = tok {
                    self.rule_leave(id, index, ok);
                }
                Ok(ok)
            }
            Err(e) => Err(e),
        };
        self.atomic_leave(saved_outer);
        r
    }

    fn builtin(&mut self, b: &Builtin) -> Res {
        match b {
            Builtin::Any => Ok(self.match_char_by(|_| true)),
            Builtin::Soi => Ok(self.pos == 0),
            Builtin::Eoi => {
                let (index, _) = self.rule_enter();
                let ok = self.pos == self.input.len();
                self.rule_leave(EOI_ID, index, ok);
                Ok(ok)
            }
            Builtin::Newline => {
                Ok(self.match_string("\n") || self.match_string("\r\n") || self.match_string("\r"))
            }
            Builtin::Ranges(rs) => Ok(self.match_char_by(|c| rs.iter().any(|(a, b)| *a <= c && c <= *b))),
            Builtin::Unicode(prop) => {
                if !self.unicode.contains_key(prop) {
                    let f = pest::unicode::by_name(prop).expect("unicode property");
                    self.unicode.insert(prop, f);
                }
                let c = match self.input[self.pos..].chars().next() {
                    Some(c) => c,
                    None => return Ok(false),
                };
                if (self.unicode[prop])(c) {
                    self.pos += c.len_utf8();
                    Ok(true)
                } else {
                    Ok(false)
                }
            }
            Builtin::Peek => {
                let it = match self.stack.peek() {
                    Some(it) => *it,
                    None => return Err(Abort::Panic),
                };
                let t = self.text(&it);
                Ok(self.match_string(t))
            }
            Builtin::Pop => {
                let it = match self.stack.pop() {
                    Some(it) => it,
                    None => return Err(Abort::Panic),
                };
                let t = self.text(&it);
                Ok(self.match_string(t))
            }
            Builtin::Drop => Ok(self.stack.pop().is_some()),
            Builtin::PeekAll => self.peek_slice(0, None, true),
            Builtin::PopAll => {
                let mut p = self.pos;
                let mut result = true;
                while let Some(it) = self.stack.pop() {
                    let t = self.text(&it);
                    result = self.input.as_bytes()[p..].starts_with(t.as_bytes());
                    if result {
                        p += t.len();
                    } else {
                        break;
                    }
                }
                if result {
                    self.pos = p;
                }
                Ok(result)
            }
        }
    }

    fn peek_slice(&mut self, start: i32, end: Option<i32>, top_to_bottom: bool) -> Res {
        fn normalize_index(i: i32, len: usize) -> Option<usize> {
            if i > len as i32 {
                None
            } else if i >= 0 {
                Some(i as usize)
            } else {
                let real_i = len as i32 + i;
                if real_i >= 0 {
                    Some(real_i as usize)
                } else {
                    None
                }
            }
        }
        let len = self.stack.len();
        let s = match normalize_index(start, len) {
            Some(s) => s,
            None => return Ok(false),
        };
        let e = match end {
            None => len,
            Some(e) => match normalize_index(e, len) {
                Some(e) => e,
                None => return Ok(false),
            },
        };
        if e <= s {
            return Ok(true);
        }
        let items: Vec<Item> = self.stack[s..e].to_vec();
        let mut p = self.pos;
        let iter: Box<dyn Iterator<Item = &Item>> = if top_to_bottom {
            Box::new(items.iter().rev())
        } else {
            Box::new(items.iter())
        };
        for it in iter {
            let t = self.text(it);
            if self.input.as_bytes()[p..].starts_with(t.as_bytes()) {
                p += t.len();
            } else {
                return Ok(false);
            }
        }
        self.pos = p;
        Ok(true)
    }

    fn lookahead(&mut self, positive: bool, e: &Node, sa: bool) -> Res {
        let initial = self.la;
        self.la = if positive {
            match initial {
                La::None | La::Positive => La::Positive,
                La::Negative => La::Negative,
            }
        } else {
            match initial {
                La::None | La::Positive => La::Negative,
                La::Negative => La::Positive,
            }
        };
        let initial_pos = self.pos;
        self.stack.snapshot();
        let r = self.eval(e, sa)?;
        self.pos = initial_pos;
        self.la = initial;
        self.stack.restore();
        Ok(if positive { r } else { !r })
    }

    fn eval(&mut self, n: &Node, sa: bool) -> Res {
        if self.fuel == 0 || self.depth > 400 {
            return Err(Abort::Diverge);
        }
        self.fuel -= 1;
        self.depth += 1;
        self.transitions += 1;
        let r = self.eval_inner(n, sa);
        self.depth -= 1;
        r
    }

    fn eval_inner(&mut self, n: &Node, sa: bool) -> Res {
        match &n.ex {
            Ex::Str(s) => Ok(self.match_string(s)),
            Ex::Insens(s) => {
                let end = self.pos + s.len();
                match self.input.get(self.pos..end) {
                    Some(p) if p.eq_ignore_ascii_case(s) => {
                        self.pos = end;
                        Ok(true)
                    }
                    _ => Ok(false),
                }
            }
            Ex::Range(a, b) => Ok(self.match_char_by(|c| *a <= c && c <= *b)),
            Ex::Ident(_, Target::Rule(idx)) => self.call_rule(*idx),
            Ex::Ident(_, Target::Builtin(b)) => self.builtin(b),
            Ex::PeekSlice(a, b) => self.peek_slice(*a, *b, false),
            Ex::PosPred(e) => self.lookahead(true, e, sa),
            Ex::NegPred(e) => self.lookahead(false, e, sa),
            Ex::Seq(items) => {
                let ti = self.queue.len();
                let ip = self.pos;
                let mut ok = true;
                for (i, item) in items.iter().enumerate() {
                    if i > 0 && !sa {
                        self.hidden_skip()?;
                    }
                    if !self.eval(item, sa)? {
                        ok = false;
                        break;
                    }
                }
                if !ok {
                    self.pos = ip;
                    self.queue.truncate(ti);
                }
                Ok(ok)
            }
            Ex::Choice(items) => {
                for item in items {
                    if self.eval(item, sa)? {
                        return Ok(true);
                    }
                }
                Ok(false)
            }
            Ex::Opt(e) => {
                self.eval(e, sa)?;
                Ok(true)
            }
            Ex::Rep(e) => {
                if sa {
                    // state.repeat(|state| expr)
                    while self.eval(e, sa)? {}
                    Ok(true)
                } else {
                    if self.eval(e, sa)? {
                        loop {
                            let ti = self.queue.len();
                            let ip = self.pos;
                            self.hidden_skip()?;
                            if !self.eval(e, sa)? {
                                self.pos = ip;
                                self.queue.truncate(ti);
                                break;
                            }
                        }
                    }
                    Ok(true)
                }
            }
            Ex::RepOnce(e) => {
                let ti0 = self.queue.len();
                let ip0 = self.pos;
                if !self.eval(e, sa)? {
                    self.pos = ip0;
                    self.queue.truncate(ti0);
                    return Ok(false);
                }
                loop {
                    let ti = self.queue.len();
                    let ip = self.pos;
                    if !sa {
                        self.hidden_skip()?;
                    }
                    if !self.eval(e, sa)? {
                        self.pos = ip;
                        self.queue.truncate(ti);
                        break;
                    }
                }
                Ok(true)
            }
            // only the unoptimized AST has counted repetitions; pest never sees them
            Ex::RepCount(..) => Err(Abort::Diverge),
            Ex::Skip(strings) => {
                let bytes = self.input.as_bytes();
                let len = bytes.len();
                let mut from = self.pos;
                let mut found = None;
                while from < len {
                    if self.input.is_char_boundary(from)
                        && strings.iter().any(|s| bytes[from..].starts_with(s.as_bytes()))
                    {
                        found = Some(from);
                        break;
                    }
                    from += 1;
                }
                self.pos = found.unwrap_or(len);
                Ok(true)
            }
            Ex::Push(e) => {
                let start = self.pos;
                if self.eval(e, sa)? {
                    self.stack.push(Item {
                        ext: false,
                        a: start as u32,
                        b: self.pos as u32,
                    });
                    Ok(true)
                } else {
                    Ok(false)
                }
            }
            Ex::Restore(e) => {
                self.stack.snapshot();
                if self.eval(e, sa)? {
                    self.stack.clear_snapshot();
                    Ok(true)
                } else {
                    self.stack.restore();
                    Ok(false)
                }
            }
        }
    }

    fn tokens(&self) -> Vec<Tok> {
        // rebuild the tree from the flat queue
        fn build(q: &[Q], mut i: usize, end: usize, out: &mut Vec<Tok>) {
            while i < end {
                match q[i] {
                    Q::Start { pos, end_idx } => {
                        let (rule, epos) = match q[end_idx] {
                            Q::End { rule, pos } => (rule, pos),
                            _ => unreachable!(),
                        };
                        let mut children = vec![];
                        build(q, i + 1, end_idx, &mut children);
                        out.push(Tok {
                            rule,
                            start: pos,
                            end: epos,
                            children,
                        });
                        i = end_idx + 1;
                    }
                    Q::End { .. } => unreachable!(),
                }
            }
        }
        let mut out = vec![];
        build(&self.queue, 0, self.queue.len(), &mut out);
        out
    }

    pub fn final_stack_texts(&self) -> Vec<String> {
        let n = self.stack.len();
        if n == 0 {
            return vec![];
        }
        self.stack[0..n].iter().map(|i| self.text(i).to_string()).collect()
    }
}

/// Run the model of `Parser::parse(rule, input)` (prefix parse, initial state NonAtomic).
pub fn run(g: &Grammar, idx: usize, input: &str, ext: &str, init: &[Item]) -> (POutcome, u64, Vec<String>) {
    let mut m = PestModel::new(g, input, ext, init);
    let r = m.call_rule(idx);
    let out = match r {
        Ok(true) => POutcome::Ok {
            end: m.pos,
            toks: m.tokens(),
        },
        Ok(false) => POutcome::Fail,
        Err(Abort::Panic) => POutcome::Panic,
        Err(Abort::Diverge) => POutcome::Diverge,
    };
    let st = m.final_stack_texts();
    (out, m.transitions, st)
}

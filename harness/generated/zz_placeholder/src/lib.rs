// keeps the workspace glob generated/* non-empty

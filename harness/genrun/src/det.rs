//! C20 (E3 half): generation is deterministic; plus compile probes for option variants.

use crate::{generate, Opts};
use pegx::report::{Report, Violation};
use refpeg::json::J;
use std::collections::hash_map::DefaultHasher;
use std::hash::{Hash, Hasher};

pub const OPTION_NAMES: &[&str] = &[
    "box_only_if_needed",
    "emit_rule_reference",
    "emit_tagged_node_reference",
    "do_not_emit_span",
    "no_warnings",
    "pest_optimizer = false",
];

pub fn option_sets(thorough: bool) -> Vec<Vec<&'static str>> {
    let n = OPTION_NAMES.len();
    let mut v = vec![];
    if thorough {
        for mask in 0..(1u32 << n) {
            v.push((0..n).filter(|i| mask & (1 << i) != 0).map(|i| OPTION_NAMES[i]).collect());
        }
    } else {
        v.push(vec![]);
        for i in 0..n {
            v.push(vec![OPTION_NAMES[i]]);
        }
        v.push(OPTION_NAMES.to_vec());
        v.push(OPTION_NAMES[..n - 1].to_vec());
    }
    v
}

/// Grammars used for the determinism runs (mutually recursive ones in particular).
pub fn det_corpus() -> Vec<String> {
    let mut v = vec![
        "a = { \"a\" ~ b* }\nb = { \"b\" ~ c? }\nc = { a+ }".to_string(),
        "a = { \"(\" ~ (a | b)* ~ \")\" }\nb = _{ \"x\" | c }\nc = @{ \"y\"+ }\nWHITESPACE = _{ \" \" }".to_string(),
        "x = { y ~ z }\ny = ${ \"a\" ~ x? }\nz = !{ \"b\"{2,3} ~ PUSH(y)? ~ POP? }\nCOMMENT = { \"#\" }".to_string(),
        "l = { \"a\" ~ l? }\nm = { (l | n){,2} }\nn = { \"n\" ~ m }".to_string(),
        "e = { t ~ (\"+\" ~ t)* }\nt = { f ~ (\"*\" ~ f)* }\nf = { \"(\" ~ e ~ \")\" | ASCII_DIGIT+ }\nWHITESPACE = _{ \" \" | NEWLINE }".to_string(),
        "s = { (!\"*/\" ~ ANY)* ~ \"*/\" }\nu = @{ (!(\"a\" | \"b\") ~ ANY)* }\nq = { PUSH(ANY) ~ PEEK[0..1] ~ PEEK_ALL ~ DROP }\nk = { ^\"kw\" ~ 'a'..'z'{1,} ~ EOI }".to_string(),
    ];
    for k in ["", "_", "@", "$", "!"] {
        v.push(format!("r = {}{{ \"a\" ~ (s | \"b\"){{2}} }}\ns = {}{{ &\"c\" ~ r? ~ \"c\" }}", k, k));
    }
    // several Unicode property built-ins (imported into the generated module as one `use` list)
    v.push("p = { LETTER ~ NUMBER? ~ (EMOJI | HAN | MATH | WHITE_SPACE | PUNCTUATION | UPPERCASE_LETTER | XID_START | CURRENCY_SYMBOL)* }\nq = { p ~ DECIMAL_NUMBER+ ~ HIRAGANA? }".to_string());
    // a skip-until with many delimiters (the generator stores them as one array constant)
    v.push("w = @{ (!(\"ab\" | \"cd\" | \"ef\" | \"gh\" | \"ij\" | \"kl\" | \"mn\" | \"op\" | \"qr\" | \"st\") ~ ANY)* ~ \"x\"? }\nv = { w ~ w? }".to_string());
    v
}

fn h(s: &str) -> u64 {
    let mut x = DefaultHasher::new();
    s.hash(&mut x);
    x.finish()
}

pub fn run(o: &Opts) -> Report {
    let mut rep = Report::default();
    let sets = option_sets(o.thorough);
    let corpus = det_corpus();
    let mut lines = vec![];
    let mut compile_probe: Vec<(String, Vec<String>)> = vec![];
    for (gi, src) in corpus.iter().enumerate() {
        rep.rules += 1;
        for set in &sets {
            rep.cases += 1;
            let a = generate(src, set);
            let b = generate(src, set);
            let key = format!("g{}|{}", gi, set.join(","));
            match (&a, &b) {
                (Ok(x), Ok(y)) => {
                    rep.nontrivial += 1;
                    if x != y {
                        rep.violation(Violation {
                            lens: "C20".into(),
                            signature: "generation-not-deterministic-in-process".into(),
                            grammar: key.clone(),
                            rule_def: src.replace('\n', " ; "),
                            input: src.clone(),
                            options: set.join(" "),
                            form: "grammar".into(),
                            expected: format!("hash {}", h(x)),
                            actual: format!("hash {}", h(y)),
                            ..Default::default()
                        });
                    }
                    rep.outcome(format!("{}", x.len() / 2000));
                    lines.push(format!("{}\t{:016x}\t{}", key, h(x), x.len()));
                    compile_probe.push((src.clone(), set.iter().map(|s| s.to_string()).collect()));
                    if rep.samples.len() < 2 && !set.is_empty() {
                        let mut j = J::obj();
                        j.set("grammar", J::s(src));
                        j.set("options", J::s(&set.join(" ")));
                        j.set("token_stream_hash", J::s(&format!("{:016x}", h(x))));
                        j.set("token_stream_len", J::i(x.len() as u64));
                        rep.sample(j);
                    }
                }
                _ => {
                    rep.violation(Violation {
                        lens: "C20".into(),
                        signature: "generator-panics-with-option-set".into(),
                        grammar: key.clone(),
                        rule_def: src.replace('\n', " ; "),
                        input: src.clone(),
                        options: set.join(" "),
                        form: "grammar".into(),
                        expected: "code".into(),
                        actual: format!("{:?}", a.err().or(b.err()).unwrap_or_default().lines().next()),
                        ..Default::default()
                    });
                }
            }
        }
    }
    if let Some(p) = &o.hashes {
        std::fs::write(p, lines.join("\n") + "\n").unwrap();
    }
    // reference cycles of length 1..6 in three declaration orders, with / without leading and trailing
    // leaf rules, with reduced boxing: they must still compile
    for (n, src) in cycle_sources() {
        {
            {
                for set in [vec!["box_only_if_needed"], vec!["box_only_if_needed", "pest_optimizer = false"]] {
                    rep.cases += 1;
                    match generate(&src, &set) {
                        Ok(_) => {
                            rep.nontrivial += 1;
                            compile_probe.push((src.clone(), set.iter().map(|s| s.to_string()).collect()));
                        }
                        Err(p) => rep.violation(Violation {
                            lens: "C20".into(),
                            signature: "generator-panics-with-option-set".into(),
                            grammar: format!("cycle{}", n),
                            rule_def: src.replace('\n', " ; "),
                            input: src.clone(),
                            options: set.join(" "),
                            form: "grammar".into(),
                            expected: "code".into(),
                            actual: p.lines().next().unwrap_or("").to_string(),
                            ..Default::default()
                        }),
                    }
                }
            }
        }
    }
    if let Some(dir) = &o.probes {
        write_probe_crates(dir, "probe_opt", &compile_probe, 100000);
    }
    rep
}

/// Reference cycles of length 1..6 in three declaration orders, with / without leading and trailing leaf rules.
pub fn cycle_sources() -> Vec<(usize, String)> {
    let mut out = vec![];
    // compound-atomic rules keep their content too: cycles made only of `$` rules
    for n in [1usize, 2, 3, 4] {
        let cyc: Vec<String> = (0..n).map(|i| if n == 1 { "r0 = ${ \"(\" ~ r0? ~ \")\" }".to_string() } else { format!("r{} = ${{ \"a\" ~ (r{} | \"b\") }}", i, (i + 1) % n) }).collect();
        out.push((n.max(3), format!("{}\ntail = {{ \"t\" }}", cyc.join("\n"))));
    }
    for n in 1..=6usize {
        for order in 0..3 {
            for (lead, trail) in [(false, false), (true, false), (false, true), (true, true)] {
                let mut cyc: Vec<String> = (0..n)
                    .map(|i| {
                        if n == 1 {
                            "r0 = { \"(\" ~ r0? ~ \")\" }".to_string()
                        } else {
                            format!("r{} = {{ \"a\" ~ r{}? }}", i, (i + 1) % n)
                        }
                    })
                    .collect();
                match order {
                    1 => cyc.reverse(),
                    2 => cyc.rotate_left(1.min(n - 1)),
                    _ => {}
                }
                let mut lines = vec![];
                if lead {
                    lines.push("lead = { \"l\" }".to_string());
                }
                lines.extend(cyc);
                if trail {
                    lines.push("tail = { \"t\" }".to_string());
                }
                out.push((n, lines.join("\n")));
            }
        }
    }
    out
}

fn write_if_changed(path: &std::path::Path, content: &str) {
    if let Ok(old) = std::fs::read_to_string(path) {
        if old == content {
            return;
        }
    }
    if let Some(p) = path.parent() {
        std::fs::create_dir_all(p).unwrap();
    }
    std::fs::write(path, content).unwrap();
}

/// Compile probes: one crate, one file per grammar x option set (so a rustc diagnostic names the grammar).
pub fn write_probe_crates(dir: &str, name: &str, items: &[(String, Vec<String>)], cap: usize) {
    let root = std::path::Path::new(dir).join(name);
    let cargo = format!(
        "[package]\nname = \"{}\"\nversion = \"0.1.0\"\nedition = \"2021\"\n\n[dependencies]\npest_typed = {{ workspace = true }}\npest_typed_derive = {{ workspace = true }}\n",
        name
    );
    write_if_changed(&root.join("Cargo.toml"), &cargo);
    let mut lib = String::from("#![allow(warnings)]\n#![recursion_limit = \"1024\"]\n");
    let mut index = String::new();
    let step = (items.len() / cap.max(1)).max(1);
    let mut wanted = std::collections::BTreeSet::new();
    wanted.insert("lib.rs".to_string());
    for (i, (src, attrs)) in items.iter().enumerate() {
        if i % step != 0 {
            continue;
        }
        let m = format!("g{}", i);
        let mut f = String::new();
        f.push_str("#[derive(::pest_typed_derive::TypedParser)]\n");
        f.push_str(&format!("#[grammar_inline = r####\"{}\"####]\n", src));
        for a in attrs {
            f.push_str(&format!("#[{}]\n", a));
        }
        if !attrs.iter().any(|a| a == "no_warnings") {
            f.push_str("#[no_warnings]\n");
        }
        f.push_str("pub struct P;\n");
        write_if_changed(&root.join("src").join(format!("{}.rs", m)), &f);
        wanted.insert(format!("{}.rs", m));
        lib.push_str(&format!("pub mod {};\n", m));
        index.push_str(&format!("{}\t{}\t{}\n", m, attrs.join(","), src.replace('\n', " ; ")));
    }
    write_if_changed(&root.join("src/lib.rs"), &lib);
    write_if_changed(&root.join("index.tsv"), &index);
    if let Ok(rd) = std::fs::read_dir(root.join("src")) {
        for e in rd.flatten() {
            let n = e.file_name().to_string_lossy().to_string();
            if !wanted.contains(&n) {
                let _ = std::fs::remove_file(e.path());
            }
        }
    }
}

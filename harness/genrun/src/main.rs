//! E3 `genrun`: explorer over the generator called in-process.
//!
//!   --lens C11   F-bad: every grammar of the bounded family; pest's verdict (pest_meta) against
//!                the generator's (derive_typed_parser under catch_unwind)
//!   --lens C20   determinism: token stream of derive_typed_parser for corpus grammars x option sets,
//!                twice in this process; hashes are written to --hashes for cross-process comparison
//!   --emit-probes DIR   write compile-probe crates (accepted half of F-bad; option variants)

mod bad;
mod det;

use pegx::report::Report;

pub struct Opts {
    pub lens: String,
    pub thorough: bool,
    pub out: Option<String>,
    pub hashes: Option<String>,
    pub probes: Option<String>,
    pub only: Option<String>,
}

/// Run the generator on an inline grammar with the given extra attribute lines.
/// Ok(token string) or Err(panic message).
pub fn generate(src: &str, attrs: &[&str]) -> Result<String, String> {
    let src = src.to_string();
    let attrs: Vec<String> = attrs.iter().map(|s| s.to_string()).collect();
    let r = std::panic::catch_unwind(move || {
        let mut text = String::new();
        text.push_str(&format!("#[grammar_inline = {:?}]\n", src));
        for a in &attrs {
            text.push_str(&format!("#[{}]\n", a));
        }
        text.push_str("struct P;");
        let ts: proc_macro2::TokenStream = text.parse().expect("attribute text");
        pest_typed_generator::derive_typed_parser(ts, false, false).to_string()
    });
    r.map_err(|p| {
        if let Some(s) = p.downcast_ref::<String>() {
            s.clone()
        } else if let Some(s) = p.downcast_ref::<&str>() {
            s.to_string()
        } else {
            "panic".into()
        }
    })
}

/// The same grammar given in several `#[grammar_inline]` attributes (the derive concatenates them).
pub fn generate_pieces(pieces: &[String], attrs: &[&str]) -> Result<String, String> {
    let pieces: Vec<String> = pieces.to_vec();
    let attrs: Vec<String> = attrs.iter().map(|s| s.to_string()).collect();
    let r = std::panic::catch_unwind(move || {
        let mut text = String::new();
        for p in &pieces {
            text.push_str(&format!("#[grammar_inline = {:?}]\n", p));
        }
        for a in &attrs {
            text.push_str(&format!("#[{}]\n", a));
        }
        text.push_str("struct P;");
        let ts: proc_macro2::TokenStream = text.parse().expect("attribute text");
        pest_typed_generator::derive_typed_parser(ts, false, false).to_string()
    });
    r.map_err(|p| {
        if let Some(s) = p.downcast_ref::<String>() {
            s.clone()
        } else if let Some(s) = p.downcast_ref::<&str>() {
            s.to_string()
        } else {
            "panic".into()
        }
    })
}

fn main() {
    let args: Vec<String> = std::env::args().collect();
    let mut o = Opts {
        lens: String::new(),
        thorough: false,
        out: None,
        hashes: None,
        probes: None,
        only: None,
    };
    let mut i = 1;
    while i < args.len() {
        let v = args.get(i + 1).cloned().unwrap_or_default();
        match args[i].as_str() {
            "--lens" => {
                o.lens = v;
                i += 1
            }
            "--tier" => {
                o.thorough = v == "thorough";
                i += 1
            }
            "--out" => {
                o.out = Some(v);
                i += 1
            }
            "--hashes" => {
                o.hashes = Some(v);
                i += 1
            }
            "--emit-probes" => {
                o.probes = Some(v);
                i += 1
            }
            "--only" => {
                o.only = Some(v);
                i += 1
            }
            _ => {}
        }
        i += 1;
    }
    if std::env::var("VERIF_SHOW_PANICS").is_err() {
        std::panic::set_hook(Box::new(|_| {}));
    }
    let t0 = std::time::Instant::now();
    let rep: Report = match o.lens.as_str() {
        "C11" => bad::run(&o),
        "C20" => det::run(&o),
        _ => {
            eprintln!("unknown lens");
            std::process::exit(2)
        }
    };
    let j = rep.to_json(&o.lens, t0.elapsed().as_secs_f64(), false);
    match &o.out {
        Some(p) => std::fs::write(p, j.to_string()).unwrap(),
        None => println!("{}", j.to_string()),
    }
    std::process::exit(if rep.violations.is_empty() { 0 } else { 1 });
}

//! C11: ill-formed grammars are rejected at generation time, accepted ones generate.

use crate::{generate, Opts};
use pegx::report::{Report, Violation};
use pest_meta::parser::{self, Rule};
use refpeg::json::J;
use std::sync::Mutex;

#[derive(Debug, Clone, PartialEq)]
pub enum PestVerdict {
    Syntax,
    /// rejected by validate_ast (left recursion, unfailing / non-progressing repetition, unreachable
    /// alternative, non-progressing skip rule): the classes the property is about
    AstInvalid(Vec<String>),
    /// rejected only by validate_pairs (undefined / duplicate names, keywords): outside the statement
    PairsInvalidOnly,
    Accepted,
}

pub fn pest_verdict(src: &str) -> PestVerdict {
    let pairs = match parser::parse(Rule::grammar_rules, src) {
        Ok(p) => p,
        Err(_) => return PestVerdict::Syntax,
    };
    let pairs_ok = pest_meta::validator::validate_pairs(pairs.clone()).is_ok();
    let ast = std::panic::catch_unwind(std::panic::AssertUnwindSafe(|| parser::consume_rules(pairs)));
    match ast {
        Ok(Ok(_)) => {
            if pairs_ok {
                PestVerdict::Accepted
            } else {
                PestVerdict::PairsInvalidOnly
            }
        }
        Ok(Err(errs)) => PestVerdict::AstInvalid(
            errs.iter()
                .map(|e| match &e.variant {
                    pest::error::ErrorVariant::CustomError { message } => message.clone(),
                    _ => "parsing error".to_string(),
                })
                .collect(),
        ),
        // pest's own validator panicked (e.g. on an undefined rule): pest does not accept the grammar
        Err(_) => PestVerdict::PairsInvalidOnly,
    }
}

fn class_of(msg: &str) -> &'static str {
    if msg.contains("left-recursive") {
        "left-recursion"
    } else if msg.contains("WHITESPACE") || msg.contains("COMMENT") {
        "non-progressing-skip-rule"
    } else if msg.contains("repeats") || msg.contains("infinit") {
        "non-progressing-or-unfailing-repetition"
    } else if msg.contains("cannot fail") || msg.contains("unreachable") || msg.contains("never be reached") {
        "unreachable-alternative"
    } else if msg.contains("WHITESPACE") || msg.contains("COMMENT") {
        "non-progressing-skip-rule"
    } else {
        "other"
    }
}

fn bodies(depth2: bool) -> Vec<String> {
    let atoms = ["\"a\"", "\"\"", "a", "b", "c"];
    let un = ["?", "*", "+", "{0,}", "&", "!", "PUSH"];
    let wrap = |op: &str, e: &str| match op {
        "&" | "!" => format!("{}({})", op, e),
        "PUSH" => format!("PUSH({})", e),
        _ => format!("({}){}", e, op),
    };
    let mut d0: Vec<String> = atoms.iter().map(|s| s.to_string()).collect();
    let mut d1 = vec![];
    for op in un {
        for a in &d0 {
            d1.push(wrap(op, a));
        }
    }
    for op in ["~", "|"] {
        for l in &d0 {
            for r in &d0 {
                d1.push(format!("{} {} {}", l, op, r));
            }
        }
    }
    let mut out = d0.clone();
    out.extend(d1.clone());
    if depth2 {
        for op in un {
            for a in &d1 {
                out.push(wrap(op, a));
            }
        }
        d0.extend(d1.clone());
        for op in ["~", "|"] {
            for (li, l) in d0.iter().enumerate() {
                for (ri, r) in d0.iter().enumerate() {
                    if li >= atoms.len() || ri >= atoms.len() {
                        out.push(format!("({}) {} ({})", l, op, r));
                    }
                }
            }
        }
    }
    out
}

pub fn corpus(thorough: bool) -> Vec<String> {
    let mut v = vec![];
    let le1 = bodies(false);
    let le2 = bodies(true);
    let kinds = ["", "_", "@", "$", "!"];
    // one rule (references to b / c are undefined: outside the statement, counted)
    for b in if thorough { &le2 } else { &le1 } {
        for k in ["", "_"] {
            v.push(format!("a = {}{{ {} }}", k, b));
        }
    }
    // one rule, depth 2, self references only (quick keeps a systematic slice)
    for (i, b) in le2.iter().enumerate() {
        if !b.contains('b') && !b.contains('c') && (thorough || i % 2 == 0) {
            v.push(format!("a = {{ {} }}", b));
        }
    }
    // two rules, bodies of depth <= 1
    let small: Vec<&String> = le1.iter().filter(|b| !b.contains('c')).collect();
    for (i, b1) in small.iter().enumerate() {
        for (j, b2) in small.iter().enumerate() {
            if thorough || (i * 31 + j) % 3 == 0 {
                let k = kinds[(i + j) % kinds.len()];
                v.push(format!("a = {}{{ {} }}\nb = {{ {} }}", k, b1, b2));
            }
        }
    }
    // three rules in a cycle through optionals, predicates, silent rules and PUSH
    let links = ["{}", "{}?", "{}*", "&{}", "!{}", "PUSH({})", "\"\" ~ {}", "{} ~ \"a\"", "\"a\" ~ {}", "{} | \"a\"", "\"a\" | {}", "({}?) ~ \"a\"", "(!\"a\") ~ {}"];
    for (i, l1) in links.iter().enumerate() {
        for (j, l2) in links.iter().enumerate() {
            for (k, l3) in links.iter().enumerate() {
                if thorough || (i * 17 + j * 5 + k) % 2 == 0 {
                    let k2 = kinds[(i + j + k) % 2];
                    v.push(format!(
                        "a = {{ {} }}\nb = {}{{ {} }}\nc = {{ {} }}",
                        l1.replace("{}", "b"),
                        k2,
                        l2.replace("{}", "c"),
                        l3.replace("{}", "a")
                    ));
                }
            }
        }
    }
    // longer reference cycles in several declaration orders (boxing decisions)
    for (n, src) in crate::det::cycle_sources() {
        if n >= 3 {
            v.push(src);
        }
    }
    // skip rules
    for ws in ["\" \"", "\"\"", "\" \"*", "\" \"?", "!\" \"", "&\" \"", "\" \" | \"\"", "a", "\" \"+"] {
        for k in kinds {
            v.push(format!("WHITESPACE = {}{{ {} }}\na = {{ \"a\" ~ \"a\" }}", k, ws));
            v.push(format!("COMMENT = {}{{ {} }}\na = {{ \"a\"* }}", k, ws));
            v.push(format!("WHITESPACE = _{{ \" \" }}\nCOMMENT = {}{{ {} }}\na = {{ \"a\"+ }}", k, ws));
        }
    }
    v
}

pub fn run(o: &Opts) -> Report {
    let mut grammars = corpus(o.thorough);
    if let Some(only) = &o.only {
        grammars = vec![only.clone()];
    }
    let total = Mutex::new(Report::default());
    let next = std::sync::atomic::AtomicUsize::new(0);
    let accepted: Mutex<Vec<String>> = Mutex::new(vec![]);
    std::thread::scope(|s| {
        for _ in 0..16 {
            s.spawn(|| {
                let mut rep = Report::default();
                let mut acc = vec![];
                loop {
                    let k = next.fetch_add(1, std::sync::atomic::Ordering::SeqCst);
                    if k >= grammars.len() {
                        break;
                    }
                    let src = &grammars[k];
                    let verdict = pest_verdict(src);
                    let typed = generate(src, &[]);
                    rep.cases += 1;
                    // the same grammar split over two attributes: same refusal, same code
                    if let Some((first, rest)) = src.split_once('\n') {
                        let split = crate::generate_pieces(&[format!("{}\n", first), rest.to_string()], &[]);
                        let same = match (&typed, &split) {
                            (Ok(a), Ok(b)) => a == b,
                            (Err(_), Err(_)) => true,
                            _ => false,
                        };
                        rep.cell("grammar-in-two-attributes-compared");
                        if !same {
                            rep.violation(Violation {
                                lens: "C11".into(),
                                signature: "grammar-pieces-not-treated-as-their-concatenation".into(),
                                grammar: "bad".into(),
                                family: "bad".into(),
                                rule: String::new(),
                                rule_def: src.replace('\n', " ; "),
                                input: src.clone(),
                                form: "grammar".into(),
                                expected: format!("as the single attribute: {}", if typed.is_ok() { "code" } else { "refused" }),
                                actual: match &split {
                                    Ok(_) => "code (different or where the whole grammar is refused)".into(),
                                    Err(p) => format!("refused: {}", p.lines().next().unwrap_or("")),
                                },
                                ..Default::default()
                            });
                        }
                    }
                    let mk = |sig: &str, expected: String, actual: String| Violation {
                        lens: "C11".into(),
                        signature: sig.into(),
                        grammar: "bad".into(),
                        family: "bad".into(),
                        rule: String::new(),
                        rule_def: src.replace('\n', " ; "),
                        input: src.clone(),
                        form: "grammar".into(),
                        expected,
                        actual,
                        ..Default::default()
                    };
                    match &verdict {
                        PestVerdict::Syntax => rep.cell("outside:syntax-error"),
                        PestVerdict::PairsInvalidOnly => rep.cell("outside:undefined-or-duplicate-or-keyword"),
                        PestVerdict::AstInvalid(msgs) => {
                            rep.nontrivial += 1;
                            for m in msgs {
                                rep.cell(&format!("rejected:{}", class_of(m)));
                            }
                            rep.outcome(format!("rejected:{}", class_of(&msgs[0])));
                            if typed.is_ok() {
                                rep.violation(mk(
                                    "ill-formed-grammar-accepted",
                                    format!("generator refuses (pest: {})", msgs.join(" / ")),
                                    "generator returned code".into(),
                                ));
                            } else if rep.samples.len() < 2 {
                                let mut j = J::obj();
                                j.set("grammar", J::s(src));
                                j.set("pest", J::s(&msgs.join(" / ")));
                                j.set("generator", J::s("panicked (refused)"));
                                rep.sample(j);
                            }
                        }
                        PestVerdict::Accepted => {
                            rep.nontrivial += 1;
                            rep.cell("accepted");
                            rep.outcome("accepted".into());
                            match &typed {
                                Ok(_) => acc.push(src.clone()),
                                Err(p) => rep.violation(mk(
                                    "valid-grammar-refused",
                                    "generator returns code (pest accepts the grammar)".into(),
                                    format!("generator panicked: {}", p.lines().next().unwrap_or("")),
                                )),
                            }
                        }
                    }
                }
                total.lock().unwrap().merge(rep, 8);
                accepted.lock().unwrap().extend(acc);
            });
        }
    });
    let mut rep = total.into_inner().unwrap();
    rep.rules = grammars.len() as u64;
    let mut acc = accepted.into_inner().unwrap();
    acc.sort();
    if let Some(dir) = &o.probes {
        // every accepted grammar is compile-probed with the default options and with reduced boxing
        let mut items: Vec<(String, Vec<String>)> = vec![];
        let cap = if o.thorough { 4000 } else { 150 };
        let step = (acc.len() / cap).max(1);
        for (i, s) in acc.iter().enumerate() {
            // self-recursive and mutually recursive grammars are all kept (boxing matters for them)
            let recursive = s.lines().any(|l| {
                let name = l.split('=').next().unwrap_or("").trim();
                let body = l.splitn(2, '=').nth(1).unwrap_or("");
                !name.is_empty() && body.split(|c: char| !c.is_alphanumeric() && c != '_').any(|w| w == name)
            });
            let single = s.lines().count() == 1;
            let cycle = s.contains("r2 = ");
            if cycle || i % step == 0 || (recursive && (o.thorough || (single && i % 3 == 0))) {
                items.push((s.clone(), vec![]));
                items.push((s.clone(), vec!["box_only_if_needed".to_string()]));
            }
        }
        crate::det::write_probe_crates(dir, "probe_bad", &items, 1_000_000);
    }
    if let Some(dir) = &o.probes {
        // every built-in rule and every Unicode property in a one-rule grammar
        let mut names: Vec<String> = pest::unicode::unicode_property_names().map(|s| s.to_string()).collect();
        names.extend(refpeg::grammar::BUILTIN_NAMES.iter().map(|s| s.to_string()));
        names.sort();
        let mut items: Vec<(String, Vec<String>)> = names.iter().map(|n| (format!("r = {{ {} ~ {}? }}", n, n), vec![])).collect();
        // a built-in referenced only from inside a predicate, translated from the unoptimized AST as well
        // (which rules are imported into the generated module is decided by a walk over the expression)
        let few_props = ["LETTER", "MATH", "EMOJI", "HAN", "WHITE_SPACE", "DECIMAL_NUMBER", "XID_START", "LOWERCASE_LETTER"];
        for n in refpeg::grammar::BUILTIN_NAMES.iter().copied().chain(few_props) {
            if n == "INHERITED" {
                continue;
            }
            for body in [format!("(!{} ~ \"a\")* ~ \"b\"?", n), format!("\"a\" ~ &{}", n), format!("(\"a\" | !{} ~ \"b\")+", n)] {
                let src = format!("r = {{ {} }}", body);
                if pest_meta::parse_and_optimize(&src).is_err() {
                    continue;
                }
                items.push((src.clone(), vec!["pest_optimizer = false".to_string()]));
                items.push((src, vec![]));
            }
        }
        // rule names that coincide with identifiers of the generated code or of the prelude
        for n in ["Rule", "rules", "generics", "wrapper", "constant", "unicode", "R", "T", "I", "Box", "Option", "Vec", "String", "content", "span", "Span", "Position", "Input", "Stack", "Tracker", "TypedNode", "Pairs", "Skipped", "Str", "pest_typed", "core", "alloc", "std", "Choice2", "Rep", "Token", "pairs", "tags", "P", "main", "skip"] {
            items.push((format!("{} = {{ \"a\" }}\nr = {{ {} ~ {}? }}", n, n, n), vec!["emit_rule_reference".to_string()]));
        }
        crate::det::write_probe_crates(dir, "probe_builtin", &items, 100000);
        rep.cells.insert("builtins_compile_probed".into(), items.len() as u64);
    }
    rep.cells.insert("accepted_by_both".into(), acc.len() as u64);
    rep
}

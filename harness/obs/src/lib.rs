//! Generic observation of a pest-typed rule type through the public API of `pest_typed`,
//! and of a `pest_derive` parser, into owned records that the explorers compare with the
//! reference models.  Nothing here knows a concrete grammar.

use pest_typed::iterators::{Pair, PairTree, Pairs, Token};
use pest_typed::tracker::Tracker;
use pest_typed::{AsInput, Input, ParsableTypedNode, Position, RuleType, Span, Stack, TypedNode};
use refpeg::m::Tok;
use std::collections::hash_map::DefaultHasher;
use std::fmt::Debug;
use std::hash::{Hash, Hasher};

pub mod getters;

#[derive(Clone, Copy, Debug, PartialEq, Eq)]
pub enum Form {
    Str,
    Pos,
    Span,
    /// the sub-slice `&s[a..b]` passed as a `&str` of its own (a different input object over the same memory)
    Slice,
}

pub mod what {
    pub const PP: u32 = 1; // try_parse_partial
    pub const PF: u32 = 2; // try_parse
    pub const CP: u32 = 4; // try_check_partial
    pub const CF: u32 = 8; // try_check
    pub const WP: u32 = 16; // try_parse_partial_with from the initial stack
    pub const WC: u32 = 32; // try_check_partial_with from the initial stack
    pub const WF: u32 = 64; // try_parse_with (full) with raw tracker
    pub const ERRTEXT: u32 = 128; // render errors
    pub const DEBUG: u32 = 256; // Debug rendering of results
    pub const EQH: u32 = 512; // parse twice: eq/hash/clone facts, full tree == partial tree
    pub const ATOM0: u32 = 1024; // drive the INHERITED = 0 instantiation through *_with
    pub const TREE: u32 = 2048; // Pair / PairTree traversal helpers (non-silent rules)
    pub const GETTERS: u32 = 4096; // generated getters
    pub const WCF: u32 = 8192; // try_check_with (full) with raw tracker
    pub const TP: u32 = 16384; // TypedParser::try_parse / try_check convenience methods of the parser struct
}

#[derive(Clone, Debug)]
pub struct Req<'i> {
    pub s: &'i str,
    pub a: usize,
    pub b: usize,
    pub form: Form,
    /// initial stack, bottom first
    pub init: &'i [&'i str],
    pub what: u32,
}

#[derive(Clone, Debug, PartialEq, Eq, Default)]
pub struct ErrObs {
    pub pos: usize,
    pub line: usize,
    pub col: usize,
    pub text: Option<String>,
    pub render_panicked: bool,
}

#[derive(Clone, Debug, PartialEq, Eq, Default)]
pub struct Call {
    pub ok: bool,
    /// cursor after a partial call (absolute offset in `s`)
    pub end: usize,
    pub toks: Vec<Tok>,
    pub debug: Option<String>,
    pub err: Option<ErrObs>,
}

#[derive(Clone, Debug, PartialEq, Eq, Default)]
pub struct StackItem {
    pub text: String,
    pub start: usize,
    pub end: usize,
    /// the entry is a slice of the parsed string object itself
    pub of_input: bool,
}

#[derive(Clone, Debug, PartialEq, Eq, Default)]
pub struct Attempts {
    pub upper: Option<u16>,
    pub positives: Vec<u16>,
    pub negatives: Vec<u16>,
    pub specials: usize,
}

#[derive(Clone, Debug, PartialEq, Eq, Default)]
pub struct WithCall {
    pub ok: bool,
    pub end: usize,
    pub toks: Vec<Tok>,
    pub stack: Vec<StackItem>,
    pub snapshot_leak: bool,
    pub tracker_pos: usize,
    pub attempts: Vec<Attempts>,
}

#[derive(Clone, Debug, PartialEq, Eq, Default)]
pub struct EqH {
    pub twice_eq: bool,
    pub twice_hash_eq: bool,
    pub twice_debug_eq: bool,
    pub clone_eq: bool,
    pub clone_hash_eq: bool,
    /// Some(x): try_parse succeeded; x = its tree == the try_parse_partial tree (also Debug)
    pub full_eq_partial: Option<bool>,
    pub hash: u64,
}

#[derive(Clone, Debug, PartialEq, Eq, Default)]
pub struct TreeObs {
    pub children: Vec<Tok>,
    pub token: Option<Tok>,
    pub thin: Option<Tok>,
    pub thin_matches_spanned: bool,
    /// (rule, start, end, depth)
    pub pre_order: Vec<(u16, usize, usize, usize)>,
    pub level_order: Vec<(u16, usize, usize)>,
    pub formatted: Option<String>,
    /// reference rendering computed from the spanned token tree with real text
    pub formatted_ref: Option<String>,
    /// for every k: number of visits made when the callback fails at visit k
    pub early_exit_pre: Vec<usize>,
    pub early_exit_level: Vec<usize>,
    pub has_tree: bool,
}

#[derive(Clone, Debug, PartialEq, Eq, Default)]
pub struct Obs {
    pub pp: Option<Call>,
    pub pf: Option<Call>,
    pub cp: Option<Call>,
    pub cf: Option<Call>,
    pub wp: Option<WithCall>,
    pub wc: Option<WithCall>,
    pub wf: Option<WithCall>,
    pub wcf: Option<WithCall>,
    pub w0p: Option<WithCall>,
    pub w0c: Option<WithCall>,
    pub eqh: Option<EqH>,
    /// (TypedParser::try_parse::<T>(s).is_ok(), TypedParser::try_check::<T>(s).is_ok(), tree equals try_parse's)
    pub tp: Option<(bool, bool, bool)>,
    pub tree: Option<TreeObs>,
    pub getters: Vec<getters::GetterObs>,
}

pub type TypedRunner = for<'i> fn(&Req<'i>) -> Obs;
pub type CompareRunner = for<'i> fn(&'i str, (Form, usize, usize), (Form, usize, usize)) -> Option<(bool, bool, bool)>;

fn hash_of<T: Hash>(t: &T) -> u64 {
    // DefaultHasher::new() has fixed keys: deterministic across runs
    let mut h = DefaultHasher::new();
    t.hash(&mut h);
    h.finish()
}

pub fn tok_of<'i, R: RuleType>(t: &Token<'i, R>, tid: fn(R) -> u16) -> Tok {
    Tok {
        rule: tid(t.rule),
        start: t.span.start(),
        end: t.span.end(),
        children: t.children.iter().map(|c| tok_of(c, tid)).collect(),
    }
}

fn toks_of<'i, R: RuleType, T: Pairs<'i, R>>(t: &T, tid: fn(R) -> u16) -> Vec<Tok> {
    t.self_or_children().iter().map(|k| tok_of(k, tid)).collect()
}

fn err_obs<R: RuleType>(e: &pest_typed::error::Error<R>, want_text: bool) -> ErrObs {
    let pos = match e.location {
        pest::error::InputLocation::Pos(p) => p,
        pest::error::InputLocation::Span((p, _)) => p,
    };
    let (line, col) = match e.line_col {
        pest::error::LineColLocation::Pos(lc) => lc,
        pest::error::LineColLocation::Span(lc, _) => lc,
    };
    let mut render_panicked = false;
    let text = if want_text {
        match std::panic::catch_unwind(std::panic::AssertUnwindSafe(|| e.to_string())) {
            Ok(t) => Some(t),
            Err(_) => {
                render_panicked = true;
                None
            }
        }
    } else {
        None
    };
    ErrObs {
        pos,
        line,
        col,
        text,
        render_panicked,
    }
}

fn init_stack<'i>(init: &'i [&'i str]) -> Stack<Span<'i>> {
    let mut st = Stack::new();
    for t in init {
        st.push(Span::new_full(t));
    }
    st
}

fn read_stack<'i>(mut st: Stack<Span<'i>>, s: &'i str) -> (Vec<StackItem>, bool) {
    let n = st.len();
    let items: Vec<StackItem> = if n == 0 {
        vec![]
    } else {
        st[0..n]
            .iter()
            .map(|sp| StackItem {
                text: sp.as_str().to_string(),
                start: sp.start(),
                end: sp.end(),
                of_input: std::ptr::eq(sp.get_input().as_ptr(), s.as_ptr())
                    && sp.get_input().len() == s.len(),
            })
            .collect()
    };
    // leaked-snapshot probe: empty the stack, push a sentinel, restore.
    // Without a pending snapshot `restore` clears the stack.
    while st.pop().is_some() {}
    static SENTINEL: &str = "\u{1}";
    st.push(Span::new_full(SENTINEL));
    st.restore();
    let leak = st.len() != 0;
    (items, leak)
}

fn attempts_of<'i, R: RuleType>(tr: Tracker<'i, R>, tid: fn(R) -> u16) -> (usize, Vec<Attempts>) {
    let (pos, map) = tr.finish();
    let v = map
        .into_iter()
        .map(|(upper, (p, n, s))| Attempts {
            upper: upper.map(tid),
            positives: p.into_iter().map(tid).collect(),
            negatives: n.into_iter().map(tid).collect(),
            specials: s.len(),
        })
        .collect();
    (pos.pos(), v)
}

fn with_parse<'i, R: RuleType, T: TypedNode<'i, R> + Pairs<'i, R>, I: Input<'i>>(
    input: I,
    req: &Req<'i>,
    tid: fn(R) -> u16,
) -> WithCall {
    let mut st = init_stack(req.init);
    let mut tr = Tracker::new(input);
    let r = T::try_parse_partial_with(input, &mut st, &mut tr);
    let (stack, snapshot_leak) = read_stack(st, req.s);
    let (tracker_pos, attempts) = attempts_of(tr, tid);
    match r {
        Some((cur, node)) => WithCall {
            ok: true,
            end: cur.byte_offset(),
            toks: toks_of(&node, tid),
            stack,
            snapshot_leak,
            tracker_pos,
            attempts,
        },
        None => WithCall {
            ok: false,
            end: 0,
            toks: vec![],
            stack,
            snapshot_leak,
            tracker_pos,
            attempts,
        },
    }
}

fn with_check<'i, R: RuleType, T: TypedNode<'i, R>, I: Input<'i>>(
    input: I,
    req: &Req<'i>,
    tid: fn(R) -> u16,
) -> WithCall {
    let mut st = init_stack(req.init);
    let mut tr = Tracker::new(input);
    let r = T::try_check_partial_with(input, &mut st, &mut tr);
    let (stack, snapshot_leak) = read_stack(st, req.s);
    let (tracker_pos, attempts) = attempts_of(tr, tid);
    WithCall {
        ok: r.is_some(),
        end: r.map(|c| c.byte_offset()).unwrap_or(0),
        toks: vec![],
        stack,
        snapshot_leak,
        tracker_pos,
        attempts,
    }
}

fn calls<'i, R, T, T0, A>(a: A, req: &Req<'i>, tid: fn(R) -> u16, obs: &mut Obs)
where
    R: RuleType,
    T: ParsableTypedNode<'i, R> + Pairs<'i, R> + Debug + Clone + Eq + Hash,
    T0: TypedNode<'i, R> + Pairs<'i, R>,
    A: AsInput<'i> + Copy,
{
    let w = req.what;
    let want_text = w & what::ERRTEXT != 0;
    let want_debug = w & what::DEBUG != 0;
    if w & what::PP != 0 {
        obs.pp = Some(match T::try_parse_partial(a) {
            Ok((cur, node)) => Call {
                ok: true,
                end: cur.byte_offset(),
                toks: toks_of(&node, tid),
                debug: if want_debug { Some(format!("{:?}", node)) } else { None },
                err: None,
            },
            Err(e) => Call {
                ok: false,
                err: Some(err_obs(&e, want_text)),
                ..Default::default()
            },
        });
    }
    if w & what::PF != 0 {
        obs.pf = Some(match T::try_parse(a) {
            Ok(node) => Call {
                ok: true,
                end: 0,
                toks: toks_of(&node, tid),
                debug: if want_debug { Some(format!("{:?}", node)) } else { None },
                err: None,
            },
            Err(e) => Call {
                ok: false,
                err: Some(err_obs(&e, want_text)),
                ..Default::default()
            },
        });
    }
    if w & what::CP != 0 {
        obs.cp = Some(match T::try_check_partial(a) {
            Ok(cur) => Call {
                ok: true,
                end: cur.byte_offset(),
                ..Default::default()
            },
            Err(e) => Call {
                ok: false,
                err: Some(err_obs(&e, want_text)),
                ..Default::default()
            },
        });
    }
    if w & what::CF != 0 {
        obs.cf = Some(match T::try_check(a) {
            Ok(()) => Call {
                ok: true,
                ..Default::default()
            },
            Err(e) => Call {
                ok: false,
                err: Some(err_obs(&e, want_text)),
                ..Default::default()
            },
        });
    }
    if w & what::WP != 0 {
        obs.wp = Some(with_parse::<R, T, _>(a.as_input(), req, tid));
    }
    if w & what::WC != 0 {
        obs.wc = Some(with_check::<R, T, _>(a.as_input(), req, tid));
    }
    if w & what::WF != 0 {
        let input = a.as_input();
        let mut st = init_stack(req.init);
        let mut tr = Tracker::new(input);
        let r = T::try_parse_with(input, &mut st, &mut tr);
        let (stack, snapshot_leak) = read_stack(st, req.s);
        let (tracker_pos, attempts) = attempts_of(tr, tid);
        obs.wf = Some(WithCall {
            ok: r.is_some(),
            end: 0,
            toks: r.as_ref().map(|n| toks_of(n, tid)).unwrap_or_default(),
            stack,
            snapshot_leak,
            tracker_pos,
            attempts,
        });
    }
    if w & what::WCF != 0 {
        let input = a.as_input();
        let mut st = init_stack(req.init);
        let mut tr = Tracker::new(input);
        let r = T::try_check_with(input, &mut st, &mut tr);
        let (stack, snapshot_leak) = read_stack(st, req.s);
        let (tracker_pos, attempts) = attempts_of(tr, tid);
        obs.wcf = Some(WithCall {
            ok: r,
            end: 0,
            toks: vec![],
            stack,
            snapshot_leak,
            tracker_pos,
            attempts,
        });
    }
    if w & what::ATOM0 != 0 {
        obs.w0p = Some(with_parse::<R, T0, _>(a.as_input(), req, tid));
        obs.w0c = Some(with_check::<R, T0, _>(a.as_input(), req, tid));
    }
    if w & what::EQH != 0 {
        if let (Ok((_, t1)), Ok((_, t2))) = (T::try_parse_partial(a), T::try_parse_partial(a)) {
            let c = t1.clone();
            let d1 = format!("{:?}", t1);
            let full_eq_partial = match T::try_parse(a) {
                Ok(f) => Some(f == t1 && format!("{:?}", f) == d1 && hash_of(&f) == hash_of(&t1)),
                Err(_) => None,
            };
            obs.eqh = Some(EqH {
                twice_eq: t1 == t2,
                twice_hash_eq: hash_of(&t1) == hash_of(&t2),
                twice_debug_eq: d1 == format!("{:?}", t2),
                clone_eq: c == t1,
                clone_hash_eq: hash_of(&c) == hash_of(&t1),
                full_eq_partial,
                hash: hash_of(&t1),
            });
        }
    }
}

/// Observation through all three input forms.
fn parser_struct_calls<'i, R, T, P>(req: &Req<'i>, obs: &mut Obs)
where
    R: RuleType,
    T: ParsableTypedNode<'i, R> + Eq,
    P: pest_typed::TypedParser<R>,
{
    if req.what & what::TP != 0 {
        let a = P::try_parse::<T>(req.s);
        let b = P::try_check::<T>(req.s);
        let same = match (&a, T::try_parse(req.s)) {
            (Ok(x), Ok(y)) => *x == y,
            (Err(_), Err(_)) => true,
            _ => false,
        };
        obs.tp = Some((a.is_ok(), b.is_ok(), same));
    }
}

pub fn observe_all<'i, R, T, T0, P>(req: &Req<'i>, tid: fn(R) -> u16) -> Obs
where
    R: RuleType,
    T: ParsableTypedNode<'i, R> + Pairs<'i, R> + Debug + Clone + Eq + Hash,
    T0: TypedNode<'i, R> + Pairs<'i, R>,
    P: pest_typed::TypedParser<R>,
{
    let mut obs = Obs::default();
    if req.form == Form::Str {
        parser_struct_calls::<R, T, P>(req, &mut obs);
    }
    match req.form {
        Form::Str => calls::<R, T, T0, &'i str>(req.s, req, tid, &mut obs),
        Form::Pos => {
            let p = Position::new(req.s, req.a).expect("boundary");
            calls::<R, T, T0, Position<'i>>(p, req, tid, &mut obs)
        }
        Form::Span => {
            let sp = Span::new(req.s, req.a, req.b).expect("boundary");
            calls::<R, T, T0, Span<'i>>(sp, req, tid, &mut obs)
        }
        Form::Slice => calls::<R, T, T0, &'i str>(&req.s[req.a..req.b], req, tid, &mut obs),
    }
    obs
}

/// Observation through `&str` only (cheaper to compile).
pub fn observe_str<'i, R, T, T0, P>(req: &Req<'i>, tid: fn(R) -> u16) -> Obs
where
    R: RuleType,
    T: ParsableTypedNode<'i, R> + Pairs<'i, R> + Debug + Clone + Eq + Hash,
    T0: TypedNode<'i, R> + Pairs<'i, R>,
    P: pest_typed::TypedParser<R>,
{
    let mut obs = Obs::default();
    assert!(req.form == Form::Str, "shard compiled for &str inputs only");
    parser_struct_calls::<R, T, P>(req, &mut obs);
    calls::<R, T, T0, &'i str>(req.s, req, tid, &mut obs);
    obs
}

fn parse_form<'i, R, T>(s: &'i str, f: (Form, usize, usize)) -> Option<T>
where
    R: RuleType,
    T: ParsableTypedNode<'i, R>,
{
    match f.0 {
        Form::Str => T::try_parse_partial(s).ok().map(|x| x.1),
        Form::Pos => T::try_parse_partial(Position::new(s, f.1)?).ok().map(|x| x.1),
        Form::Span => T::try_parse_partial(Span::new(s, f.1, f.2)?).ok().map(|x| x.1),
        Form::Slice => T::try_parse_partial(s.get(f.1..f.2)?).ok().map(|x| x.1),
    }
}

/// Compare the results of one rule on two (sub-)inputs of one string object:
/// (==, equal hashes, equal Debug).
pub fn compare<'i, R, T>(
    s: &'i str,
    f1: (Form, usize, usize),
    f2: (Form, usize, usize),
) -> Option<(bool, bool, bool)>
where
    R: RuleType,
    T: ParsableTypedNode<'i, R> + Debug + Eq + Hash,
{
    let t1: T = parse_form::<R, T>(s, f1)?;
    let t2: T = parse_form::<R, T>(s, f2)?;
    Some((
        t1 == t2,
        hash_of(&t1) == hash_of(&t2),
        format!("{:?}", t1) == format!("{:?}", t2),
    ))
}

/// Reference rendering of a token tree (the statement of C15): pre-order, four spaces per
/// level, `{:?}` of the matched text on leaves.
fn render_ref<'i, R: RuleType>(t: &Token<'i, R>, depth: usize, out: &mut String) {
    use std::fmt::Write;
    if t.children.is_empty() {
        let _ = write!(out, "{}{:?} {:?}\n", "    ".repeat(depth), t.rule, t.span.as_str());
    } else {
        let _ = write!(out, "{}{:?}\n", "    ".repeat(depth), t.rule);
    }
    for c in &t.children {
        render_ref(c, depth + 1, out);
    }
}

/// Traversal helpers of a non-silent rule with content (`Pair` + `PairTree`).
pub fn observe_tree<'i, R, T>(req: &Req<'i>, tid: fn(R) -> u16) -> Option<TreeObs>
where
    R: RuleType,
    T: ParsableTypedNode<'i, R> + Pair<'i, R> + PairTree<'i, R>,
{
    let node: T = parse_form::<R, T>(req.s, (req.form, req.a, req.b))?;
    let mut o = observe_pair_only::<R, T>(&node, tid);
    o.has_tree = true;
    let _ = node.iterate_pre_order(|t, d| -> Result<(), ()> {
        o.pre_order.push((tid(t.rule), t.span.start(), t.span.end(), d));
        Ok(())
    });
    let _ = node.iterate_level_order(|t, _| -> Result<(), ()> {
        o.level_order.push((tid(t.rule), t.span.start(), t.span.end()));
        Ok(())
    });
    o.formatted = node.format_as_tree().ok();
    let mut r = String::new();
    render_ref(&node.as_token(), 0, &mut r);
    o.formatted_ref = Some(r);
    let total = o.pre_order.len();
    for k in 0..total {
        let mut visits = 0usize;
        let _ = node.iterate_pre_order(|_, _| {
            visits += 1;
            if visits == k + 1 {
                Err(())
            } else {
                Ok(())
            }
        });
        o.early_exit_pre.push(visits);
        let mut visits = 0usize;
        let _ = node.iterate_level_order(|_, _| {
            visits += 1;
            if visits == k + 1 {
                Err(())
            } else {
                Ok(())
            }
        });
        o.early_exit_level.push(visits);
    }
    Some(o)
}

fn observe_pair_only<'i, R, T>(node: &T, tid: fn(R) -> u16) -> TreeObs
where
    R: RuleType,
    T: Pair<'i, R>,
{
    let mut o = TreeObs::default();
    o.children = node.children().iter().map(|t| tok_of(t, tid)).collect();
    let tok = node.as_token();
    let spanned = tok_of(&tok, tid);
    let thin = node.as_thin_token();
    fn thin_to<R: RuleType>(t: &pest_typed::iterators::ThinToken<R>, tid: fn(R) -> u16) -> Tok {
        Tok {
            rule: tid(t.rule),
            start: t.start,
            end: t.end,
            children: t.children.iter().map(|c| thin_to(c, tid)).collect(),
        }
    }
    let thin = thin_to(&thin, tid);
    o.thin_matches_spanned = thin == spanned;
    o.token = Some(spanned);
    o.thin = Some(thin);
    o
}

/// Traversal helpers of an atomic rule (`Pair` only).
pub fn observe_pair<'i, R, T>(req: &Req<'i>, tid: fn(R) -> u16) -> Option<TreeObs>
where
    R: RuleType,
    T: ParsableTypedNode<'i, R> + Pair<'i, R>,
{
    let node: T = parse_form::<R, T>(req.s, (req.form, req.a, req.b))?;
    Some(observe_pair_only::<R, T>(&node, tid))
}

// ---------------------------------------------------------------------------------------------
// pest side

#[derive(Clone, Debug, PartialEq, Eq)]
pub enum PestObs {
    Ok { end: usize, toks: Vec<Tok> },
    Fail,
    Panic,
    /// the wrapper assumption does not hold (machinery error)
    Malformed(String),
}

pub const WRAP_BASE: u16 = 20000;

fn pest_tok<R: pest::RuleType>(p: pest::iterators::Pair<'_, R>, pid: fn(R) -> u16) -> Tok {
    let span = p.as_span();
    let rule = pid(p.as_rule());
    Tok {
        rule,
        start: span.start(),
        end: span.end(),
        children: p.into_inner().map(|c| pest_tok(c, pid)).collect(),
    }
}

/// Convert the result of `Parser::parse(__w_r, input)`; the wrapper pair yields the end offset.
pub fn run_pest<'i, R: pest::RuleType>(
    f: impl FnOnce() -> Result<pest::iterators::Pairs<'i, R>, pest::error::Error<R>> + std::panic::UnwindSafe,
    pid: fn(R) -> u16,
) -> PestObs {
    let r = std::panic::catch_unwind(move || match f() {
        Ok(pairs) => {
            let v: Vec<Tok> = pairs.map(|p| pest_tok(p, pid)).collect();
            if v.len() != 1 || v[0].rule < WRAP_BASE || v[0].start != 0 {
                return PestObs::Malformed(format!("{:?}", v));
            }
            let w = v.into_iter().next().unwrap();
            PestObs::Ok {
                end: w.end,
                toks: w.children,
            }
        }
        Err(_) => PestObs::Fail,
    });
    match r {
        Ok(o) => o,
        Err(_) => PestObs::Panic,
    }
}

pub type PestRunner = fn(&str) -> PestObs;
pub type TreeRunner = for<'i> fn(&Req<'i>) -> Option<TreeObs>;
pub type GetterRunner = for<'i> fn(&Req<'i>) -> Option<Vec<getters::GetterObs>>;
pub type AccRunner = for<'i> fn(&Req<'i>) -> Option<AccObs>;

/// Accessors of a choice / sequence / repetition rule body (C17), filled by generated code.
#[derive(Clone, Debug, PartialEq, Eq, Default)]
pub struct AccObs {
    pub kind: &'static str,
    /// choice: which `_k()` accessors return Some, with the span of the node inside
    pub accessors: Vec<Option<(usize, usize)>>,
    /// choice: index of the closure run by the if_then / else_if / else_then chain
    pub chain: Option<usize>,
    /// choice: index of the arm run by match_choices!
    pub match_choices: Option<usize>,
    /// sequence: spans by get_matched / as_ref / into_matched / get_all().matched
    pub get_matched: Vec<(usize, usize)>,
    pub as_ref: Vec<(usize, usize)>,
    pub into_matched: Vec<(usize, usize)>,
    pub get_all_matched: Vec<(usize, usize)>,
    /// sequence / repetition: tokens skipped before each element (from get_all / iter_all)
    pub skipped: Vec<Vec<(usize, usize)>>,
    /// repetition: spans by iter_matched / into_iter_matched / iter_all
    pub iter_matched: Vec<(usize, usize)>,
    pub into_iter_matched: Vec<(usize, usize)>,
    pub iter_all_matched: Vec<(usize, usize)>,
}

/// Spans of the tokens a node contributes (used for skipped items).
pub fn tok_spans<'i, R: RuleType, T: Pairs<'i, R>>(t: &T) -> Vec<(usize, usize)> {
    t.self_or_children().iter().map(|k| (k.span.start(), k.span.end())).collect()
}
pub fn sp(s: &Span<'_>) -> (usize, usize) {
    (s.start(), s.end())
}

/// What a generated shard exposes per rule.
pub struct RuleEntry {
    pub name: &'static str,
    pub typed: TypedRunner,
    pub compare: Option<CompareRunner>,
    pub tree: Option<TreeRunner>,
    pub getters: Option<GetterRunner>,
    pub acc: Option<AccRunner>,
    /// `Parser::parse(__w_r, input)` with `__w_r = { r }`
    pub pest: PestRunner,
    /// `Parser::parse(__a_r, input)` with `__a_r = @{ r }`
    pub pest_atomic: Option<PestRunner>,
    /// explored as an entry point (helper rules only keep the index aligned with the grammar)
    pub entry: bool,
}

pub fn no_typed<'i>(_req: &Req<'i>) -> Obs {
    panic!("not an entry rule")
}
pub fn no_pest(_s: &str) -> PestObs {
    PestObs::Malformed("no pest parser for this entry".to_string())
}

/// Parse the (sub-)input described by `req` with the partial entry point.
pub fn parse_req<'i, R, T>(req: &Req<'i>) -> Option<T>
where
    R: RuleType,
    T: ParsableTypedNode<'i, R>,
{
    parse_form::<R, T>(req.s, (req.form, req.a, req.b))
}

pub struct GrammarEntry {
    pub id: &'static str,
    pub family: &'static str,
    pub src: &'static str,
    /// option set the typed parser was derived with (C20), "" = default
    pub options: &'static str,
    /// id of the grammar entry holding the default-option variant of the same source (C20)
    pub base_id: &'static str,
    pub alphabet: &'static str,
    pub max_len: usize,
    pub max_len_thorough: usize,
    /// texts available for pre-populated stack entries (empty = only the empty stack)
    pub init_alphabet: &'static [&'static str],
    pub init_depth: usize,
    pub all_forms: bool,
    /// explicit input list (instead of all strings over the alphabet)
    pub inputs: Option<&'static [&'static str]>,
    pub rules: Vec<RuleEntry>,
}

//! Flattening of the values returned by generated getters (`r.x()`), for C16.
//!
//! A getter returns `&X`, `Option<..>`, `Vec<..>` or a tuple of those.  `Flat` turns such a value
//! into its *shape string* and the list of leaves in order.

use std::fmt::Debug;

#[derive(Clone, Debug, PartialEq, Eq, Default)]
pub struct Leaf {
    /// span of the node, when the node type has one
    pub span: Option<(usize, usize)>,
    /// Debug rendering of the node
    pub debug: String,
}

#[derive(Clone, Debug, PartialEq, Eq, Default)]
pub struct GetterObs {
    pub name: &'static str,
    pub shape: String,
    pub leaves: Vec<Leaf>,
    /// the value with its slots: `#` a node, `N` / `S..` an Option, `[..]` a Vec, `(..,..)` a tuple
    pub slots: String,
}

/// Implemented (by macro, in the generated code and below) for every node type a getter can return.
pub trait LeafNode: Debug {
    fn leaf_span(&self) -> Option<(usize, usize)>;
}

pub trait Flat {
    fn shape() -> String;
    fn flat(&self, out: &mut Vec<Leaf>);
    fn slots(&self, out: &mut String);
}

impl<'s, T: LeafNode> Flat for &'s T {
    fn shape() -> String {
        "R".to_string()
    }
    fn flat(&self, out: &mut Vec<Leaf>) {
        out.push(Leaf {
            span: self.leaf_span(),
            debug: format!("{:?}", self),
        });
    }
    fn slots(&self, out: &mut String) {
        out.push('#');
    }
}

impl<T: Flat> Flat for Option<T> {
    fn shape() -> String {
        format!("Option<{}>", T::shape())
    }
    fn flat(&self, out: &mut Vec<Leaf>) {
        if let Some(x) = self {
            x.flat(out)
        }
    }
    fn slots(&self, out: &mut String) {
        match self {
            Some(x) => {
                out.push('S');
                x.slots(out)
            }
            None => out.push('N'),
        }
    }
}

impl<T: Flat> Flat for Vec<T> {
    fn shape() -> String {
        format!("Vec<{}>", T::shape())
    }
    fn flat(&self, out: &mut Vec<Leaf>) {
        for x in self {
            x.flat(out)
        }
    }
    fn slots(&self, out: &mut String) {
        out.push('[');
        for (i, x) in self.iter().enumerate() {
            if i > 0 {
                out.push(',');
            }
            x.slots(out);
        }
        out.push(']');
    }
}

macro_rules! tuple_flat {
    ($($T:ident $i:tt),+) => {
        impl<$($T: Flat),+> Flat for ($($T,)+) {
            fn shape() -> String {
                let v: Vec<String> = vec![$($T::shape()),+];
                format!("({})", v.join(","))
            }
            fn flat(&self, out: &mut Vec<Leaf>) {
                $( self.$i.flat(out); )+
            }
            fn slots(&self, out: &mut String) {
                out.push('(');
                $( if $i > 0 { out.push(','); } self.$i.slots(out); )+
                out.push(')');
            }
        }
    };
}
tuple_flat!(A 0, B 1);
tuple_flat!(A 0, B 1, C 2);
tuple_flat!(A 0, B 1, C 2, D 3);
tuple_flat!(A 0, B 1, C 2, D 3, E 4);
tuple_flat!(A 0, B 1, C 2, D 3, E 4, F 5);
tuple_flat!(A 0, B 1, C 2, D 3, E 4, F 5, G 6);
tuple_flat!(A 0, B 1, C 2, D 3, E 4, F 5, G 6, H 7);

pub fn observe_getter<T: Flat>(name: &'static str, v: T) -> GetterObs {
    let mut leaves = vec![];
    v.flat(&mut leaves);
    let mut slots = String::new();
    v.slots(&mut slots);
    GetterObs {
        name,
        shape: T::shape(),
        leaves,
        slots,
    }
}

macro_rules! leaf_nospan {
    ($($t:ty),*) => { $( impl LeafNode for $t { fn leaf_span(&self) -> Option<(usize, usize)> { None } } )* };
}
use pest_typed::predefined_node as pn;
leaf_nospan!(pn::ANY, pn::SOI, pn::NEWLINE, pn::DROP);
impl<'i> LeafNode for pn::PEEK<'i> {
    fn leaf_span(&self) -> Option<(usize, usize)> {
        Some((self.span.start(), self.span.end()))
    }
}
impl<'i> LeafNode for pn::PEEK_ALL<'i> {
    fn leaf_span(&self) -> Option<(usize, usize)> {
        Some((self.span.start(), self.span.end()))
    }
}
impl<'i> LeafNode for pn::POP_ALL<'i> {
    fn leaf_span(&self) -> Option<(usize, usize)> {
        Some((self.span.start(), self.span.end()))
    }
}
impl<'i> LeafNode for pn::POP<'i> {
    // POP stores the span that was on the stack, not the consumed one: only its text is comparable
    fn leaf_span(&self) -> Option<(usize, usize)> {
        None
    }
}
impl<const A: char, const B: char> LeafNode for pn::CharRange<A, B> {
    fn leaf_span(&self) -> Option<(usize, usize)> {
        None
    }
}
impl<T0: Debug, T1: Debug> LeafNode for pest_typed::choices::Choice2<T0, T1> {
    fn leaf_span(&self) -> Option<(usize, usize)> {
        None
    }
}
impl<T0: Debug, T1: Debug, T2: Debug> LeafNode for pest_typed::choices::Choice3<T0, T1, T2> {
    fn leaf_span(&self) -> Option<(usize, usize)> {
        None
    }
}

/// For generated rule structs with a span (non-silent rules).
#[macro_export]
macro_rules! leaf_spanned {
    ($($path:tt)+) => {
        impl<'i, const I: usize> $crate::getters::LeafNode for $($path)+<'i, I> {
            fn leaf_span(&self) -> Option<(usize, usize)> {
                let sp = ::pest_typed::Spanned::span(self);
                Some((sp.start(), sp.end()))
            }
        }
    };
}

/// For generated silent rule structs (no span).
#[macro_export]
macro_rules! leaf_silent {
    ($($path:tt)+) => {
        impl<'i, const I: usize> $crate::getters::LeafNode for $($path)+<'i, I> {
            fn leaf_span(&self) -> Option<(usize, usize)> {
                None
            }
        }
    };
}

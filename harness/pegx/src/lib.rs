//! E1 `pegx`: bounded-exhaustive explorer over generated parsers.
//!
//! A generated shard crate calls `pegx::main(entries)`.  For every grammar x rule x input (all
//! strings up to the family's bound over its alphabet) the explorer runs the real pest-typed
//! parser, the real pest parser, the reference machine `M` and the pest model `M_pest`, applies
//! the lens of the requested property and writes a JSON report.

pub mod base;
pub mod lenses;
pub mod report;

use obs::GrammarEntry;
use refpeg::grammar::Grammar;
use refpeg::json::J;
use report::{Report, Violation};
use std::sync::atomic::{AtomicBool, AtomicUsize, Ordering};
use std::sync::{Arc, Mutex};
use std::time::{Duration, Instant};

#[derive(Clone, Debug)]
pub struct Opts {
    pub lens: String,
    pub out: Option<String>,
    pub threads: usize,
    pub only_grammar: Option<String>,
    pub only_rule: Option<String>,
    pub only_input: Option<String>,
    pub max_len: Option<usize>,
    pub thorough: bool,
    pub verbose: bool,
    pub case_timeout_s: u64,
    pub wall_cap_s: u64,
    pub max_violations: usize,
    /// `--c18-op <grammar index> <rule index> <escaped input>`: print the observation digest of one call and exit
    pub c18_op: Option<(usize, usize, String)>,
}

fn unescape(s: &str) -> String {
    let mut out = String::new();
    let mut it = s.chars();
    while let Some(c) = it.next() {
        if c == '\\' {
            match it.next() {
                Some('n') => out.push('\n'),
                Some('r') => out.push('\r'),
                Some('t') => out.push('\t'),
                Some('\\') => out.push('\\'),
                Some('"') => out.push('"'),
                Some('u') => {
                    let mut hex = String::new();
                    for h in it.by_ref() {
                        if h == '{' {
                            continue;
                        }
                        if h == '}' {
                            break;
                        }
                        hex.push(h);
                    }
                    if let Some(ch) = u32::from_str_radix(&hex, 16).ok().and_then(char::from_u32) {
                        out.push(ch);
                    }
                }
                Some(o) => out.push(o),
                None => {}
            }
        } else {
            out.push(c);
        }
    }
    out
}

fn parse_args() -> Opts {
    let mut o = Opts {
        lens: String::new(),
        out: None,
        threads: 16,
        only_grammar: None,
        only_rule: None,
        only_input: None,
        max_len: None,
        thorough: false,
        verbose: false,
        case_timeout_s: 20,
        wall_cap_s: 3600,
        max_violations: 40,
        c18_op: None,
    };
    let args: Vec<String> = std::env::args().collect();
    let mut i = 1;
    while i < args.len() {
        let a = args[i].as_str();
        let mut val = || {
            i += 1;
            args.get(i).cloned().unwrap_or_default()
        };
        match a {
            "--lens" => o.lens = val(),
            "--out" => o.out = Some(val()),
            "--threads" => o.threads = val().parse().unwrap_or(16),
            "--only-grammar" => o.only_grammar = Some(val()),
            "--only-rule" => o.only_rule = Some(val()),
            "--only-input" => o.only_input = Some(unescape(&val())),
            "--max-len" => o.max_len = val().parse().ok(),
            "--case-timeout" => o.case_timeout_s = val().parse().unwrap_or(20),
            "--wall-cap" => o.wall_cap_s = val().parse().unwrap_or(3600),
            "--self-timeout" => {
                // a confirmation run ends itself even when the process that spawned it has died meanwhile
                let secs: u64 = val().parse().unwrap_or(150);
                std::thread::spawn(move || {
                    std::thread::sleep(std::time::Duration::from_secs(secs));
                    std::process::exit(4);
                });
            }
            "--max-violations" => o.max_violations = val().parse().unwrap_or(40),
            "--verbose" => o.verbose = true,
            "--tier" => o.thorough = val() == "thorough",
            "--c18-op" => {
                let gi = val().parse().unwrap_or(0);
                let ri = val().parse().unwrap_or(0);
                let inp = unescape(&val());
                o.c18_op = Some((gi, ri, inp));
            }
            "--list" => {
                o.lens = "LIST".into();
            }
            _ => {
                eprintln!("unknown argument {}", a);
                std::process::exit(2);
            }
        }
        i += 1;
    }
    o
}

pub struct Ctx {
    pub entries: Vec<GrammarEntry>,
    pub grammars: Vec<Grammar>,
    pub opts: Opts,
}

impl Ctx {
    /// input length bound for this grammar in the requested tier
    pub fn len_for(&self, e: &GrammarEntry) -> usize {
        match self.opts.max_len {
            Some(n) => n,
            None => {
                if self.opts.thorough {
                    e.max_len_thorough
                } else {
                    e.max_len
                }
            }
        }
    }
}

/// Entry point of every generated shard binary.
pub fn main(entries: Vec<GrammarEntry>) -> ! {
    let opts = parse_args();
    // pest panics (PEEK/POP on an empty stack) are expected and caught: keep stderr quiet
    std::panic::set_hook(Box::new(|_| {}));
    if opts.lens == "LIST" {
        for e in &entries {
            println!("{} family={} rules={} options={:?}", e.id, e.family, e.rules.len(), e.options);
        }
        std::process::exit(0);
    }
    if let Some((gi, ri, inp)) = &opts.c18_op {
        // one call in a fresh process image: the baseline for the history exploration of C18
        println!("{}", lenses::op_digest(&entries[*gi], *ri, inp));
        std::process::exit(0);
    }
    let t0 = Instant::now();
    let mut grammars = vec![];
    for e in &entries {
        match Grammar::load(e.src) {
            Ok(g) => grammars.push(g),
            Err(err) => {
                eprintln!("MACHINERY: grammar {} does not load in refpeg: {}", e.id, err);
                std::process::exit(2);
            }
        }
    }
    let ctx = Arc::new(Ctx {
        entries,
        grammars,
        opts: opts.clone(),
    });
    // work items
    let mut items: Vec<(usize, usize)> = vec![];
    for (gi, e) in ctx.entries.iter().enumerate() {
        if let Some(f) = &opts.only_grammar {
            if e.id != f {
                continue;
            }
        }
        for (ri, r) in e.rules.iter().enumerate() {
            if let Some(f) = &opts.only_rule {
                if r.name != f {
                    continue;
                }
            }
            if r.entry && lenses::rule_selected(&ctx, gi, ri) {
                items.push((gi, ri));
            }
        }
    }
    let items = Arc::new(items);
    let next = Arc::new(AtomicUsize::new(0));
    let total = Arc::new(Mutex::new(Report::default()));
    let current: Arc<Mutex<Vec<(String, Instant)>>> =
        Arc::new(Mutex::new(vec![(String::new(), Instant::now()); opts.threads.max(1)]));
    let done = Arc::new(AtomicBool::new(false));
    let capped = Arc::new(AtomicBool::new(false));
    let mut handles = vec![];
    for tid in 0..opts.threads.max(1) {
        let ctx = ctx.clone();
        let items = items.clone();
        let next = next.clone();
        let total = total.clone();
        let current = current.clone();
        let capped = capped.clone();
        let h = std::thread::Builder::new()
            .stack_size(256 << 20)
            .spawn(move || loop {
                let k = next.fetch_add(1, Ordering::SeqCst);
                if k >= items.len() {
                    break;
                }
                if t0.elapsed() > Duration::from_secs(ctx.opts.wall_cap_s) {
                    capped.store(true, Ordering::SeqCst);
                    break;
                }
                let (gi, ri) = items[k];
                let mut rep = Report::default();
                let note = |s: &str| {
                    let mut c = current.lock().unwrap();
                    c[tid] = (s.to_string(), Instant::now());
                };
                lenses::explore_rule(&ctx, gi, ri, &mut rep, &note);
                note("");
                total.lock().unwrap().merge(rep, ctx.opts.max_violations);
            })
            .unwrap();
        handles.push(h);
    }
    // watchdog: a case that stays current for longer than the timeout is only *suspected* to hang (a loaded
    // machine can starve a thread); the suspicion is confirmed by re-running exactly that case in a fresh
    // process under a hard time limit before anything is reported
    {
        let current = current.clone();
        let done = done.clone();
        let timeout = opts.case_timeout_s;
        let total = total.clone();
        let out = opts.out.clone();
        let lens = opts.lens.clone();
        let thorough = opts.thorough;
        std::thread::spawn(move || {
            let mut cleared: std::collections::HashMap<String, u32> = std::collections::HashMap::new();
            loop {
                std::thread::sleep(Duration::from_millis(500));
                if done.load(Ordering::SeqCst) {
                    break;
                }
                let suspects: Vec<String> = {
                    let c = current.lock().unwrap();
                    c.iter()
                        .filter(|(what, since)| {
                            let extra = cleared.get(what).copied().unwrap_or(0) as u64;
                            !what.is_empty() && since.elapsed() > Duration::from_secs(timeout * (1 + 10 * extra))
                        })
                        .map(|(what, _)| what.clone())
                        .collect()
                };
                for what in suspects {
                    let parts: Vec<&str> = what.split('\u{1}').collect();
                    let confirmed = if parts.len() >= 3 {
                        let exe = std::env::current_exe().expect("exe");
                        let mut cmd = std::process::Command::new(exe);
                        cmd.args(["--lens", &lens, "--tier", if thorough { "thorough" } else { "quick" }, "--only-grammar", parts[0], "--only-rule", parts[1], "--only-input", parts[2], "--threads", "1", "--case-timeout", "100000", "--self-timeout", "150"])
                            .stdout(std::process::Stdio::null())
                            .stderr(std::process::Stdio::null());
                        match cmd.spawn() {
                            Ok(mut child) => {
                                let t = Instant::now();
                                let mut finished = false;
                                while t.elapsed() < Duration::from_secs(120) {
                                    if let Ok(Some(_)) = child.try_wait() {
                                        finished = true;
                                        break;
                                    }
                                    std::thread::sleep(Duration::from_millis(200));
                                }
                                if !finished {
                                    let _ = child.kill();
                                }
                                !finished
                            }
                            Err(_) => true,
                        }
                    } else {
                        true
                    };
                    if confirmed {
                        let mut rep = total.lock().unwrap();
                        rep.hangs.push(what.replace('\u{1}', ":"));
                        let j = rep.to_json(&lens, 0.0, false);
                        if let Some(p) = &out {
                            let _ = std::fs::write(p, j.to_string());
                        }
                        println!("HANG case={}", what.replace('\u{1}', ":"));
                        std::process::exit(3);
                    }
                    let n = cleared.entry(what.clone()).or_insert(0);
                    *n += 1;
                    if *n > 3 {
                        // stuck in this process although the same case returns in a fresh one: not a verdict
                        eprintln!("MACHINERY: case {:?} does not return in-process but returns when re-run", what);
                        std::process::exit(2);
                    }
                }
            }
        });
    }
    for h in handles {
        if h.join().is_err() {
            eprintln!("MACHINERY: worker thread panicked");
            std::process::exit(2);
        }
    }
    done.store(true, Ordering::SeqCst);
    let rep = total.lock().unwrap();
    let wall = t0.elapsed().as_secs_f64();
    let j = rep.to_json(&opts.lens, wall, capped.load(Ordering::SeqCst));
    if let Some(p) = &opts.out {
        std::fs::write(p, j.to_string()).expect("write report");
    }
    if opts.verbose || opts.out.is_none() {
        println!("{}", j.to_string());
    }
    let code = if !rep.model_errors.is_empty() {
        2
    } else if !rep.violations.is_empty() {
        1
    } else {
        0
    };
    std::process::exit(code);
}

pub fn jv(v: &Violation) -> J {
    v.to_json()
}

//! Per-case model runs and the binding of the models to real pest (DESIGN.md 2.2).

use crate::report::Report;
use obs::{GrammarEntry, PestObs};
use refpeg::grammar::Grammar;
use refpeg::m::{self, Atom, Item, MResult, Tok};
use refpeg::mpest::{self, POutcome};

pub struct Base {
    pub m: MResult,
    pub pm: POutcome,
    pub pm_stack: Vec<String>,
    pub pest: Option<PestObs>,
    /// pest has a defined answer on this case and it coincides with `M`
    pub defined: bool,
    pub exp_ok: bool,
    pub exp_end: usize,
    /// expected token tree, before the documented pruning
    pub exp_toks: Vec<Tok>,
    /// M's tokens (unpruned)
    pub m_toks: Vec<Tok>,
    /// this case must be skipped: the grammar is not well-founded on it
    pub ill_founded: bool,
}

pub fn ext_of(init: &[&str]) -> (String, Vec<Item>) {
    let mut ext = String::new();
    let mut items = vec![];
    for t in init {
        let a = ext.len() as u32;
        ext.push_str(t);
        items.push(Item {
            ext: true,
            a,
            b: ext.len() as u32,
        });
    }
    (ext, items)
}

pub fn m_toks_of(r: &MResult) -> Vec<Tok> {
    let mut v = vec![];
    if let Some((_, _, node)) = &r.ok {
        node.tokens(&mut v);
    }
    v
}

/// Run `M`, `M_pest` and (for the empty initial stack, non-atomic caller) the real pest parser.
pub fn base(
    g: &Grammar,
    e: &GrammarEntry,
    ri: usize,
    input: &str,
    init: &[&str],
    at_call: Atom,
    rep: &mut Report,
) -> Base {
    let (ext, items) = ext_of(init);
    let mres = m::run(g, ri, input, &ext, &items, true, at_call);
    rep.states += mres.stats.states;
    rep.transitions += mres.stats.transitions;
    let ill_founded = mres.diverged || mres.nonprogress;
    let m_toks = m_toks_of(&mres);
    // The pest model always starts NonAtomic; an atomic caller is modelled through the wrapper rule
    // on the real pest side only (see `pest_atomic`), so `M_pest` is run for the non-atomic caller.
    let (pm, ptrans, pm_stack) = if at_call == Atom::NonAtomic && !ill_founded {
        mpest::run(g, ri, input, &ext, &items)
    } else {
        (POutcome::Diverge, 0, vec![])
    };
    rep.transitions += ptrans;

    let mut pest = None;
    if init.is_empty() && !ill_founded {
        match at_call {
            Atom::NonAtomic => {
                let p = (e.rules[ri].pest)(input);
                rep.conformance_runs += 1;
                // model of pest <-> real pest
                let same = match (&p, &pm) {
                    (PestObs::Ok { end, toks }, POutcome::Ok { end: e2, toks: t2 }) => end == e2 && toks == t2,
                    (PestObs::Fail, POutcome::Fail) => true,
                    (PestObs::Panic, POutcome::Panic) => true,
                    _ => false,
                };
                if !same {
                    rep.model_error(format!(
                        "model of pest not faithful: grammar={} rule={} input={:?}: pest={:?} M_pest={:?}",
                        e.id, e.rules[ri].name, input, p, pm
                    ));
                }
                if matches!(p, PestObs::Panic) {
                    rep.pest_panics += 1;
                }
                pest = Some(p);
            }
            _ => {
                if let Some(f) = e.rules[ri].pest_atomic {
                    let p = f(input);
                    rep.conformance_runs += 1;
                    pest = Some(p);
                }
            }
        }
    }

    let m_ok = mres.ok.is_some();
    let m_end = mres.ok.as_ref().map(|x| x.0).unwrap_or(0);
    let mut defined = false;
    let (mut exp_ok, mut exp_end, mut exp_toks) = (m_ok, m_end, m_toks.clone());
    if at_call == Atom::NonAtomic && !ill_founded {
        defined = match &pm {
            POutcome::Ok { end, toks } => m_ok && *end == m_end && *toks == m_toks,
            POutcome::Fail => !m_ok,
            _ => false,
        };
        if defined {
            if let Some(p) = &pest {
                // expected := real pest
                match p {
                    PestObs::Ok { end, toks } => {
                        exp_ok = true;
                        exp_end = *end;
                        exp_toks = toks.clone();
                    }
                    PestObs::Fail => {
                        exp_ok = false;
                        exp_end = 0;
                        exp_toks = vec![];
                    }
                    _ => {}
                }
            }
        } else {
            rep.pest_undefined += 1;
            // pest can only be undefined where the stack is involved (empty-stack PEEK/POP, a missing
            // restore, POP_ALL failing half-way): anywhere else a disagreement means M itself is wrong
            if mres.stack_ops == 0 && mres.empty_stack_ops == 0 && mres.oob_slices == 0 && init.is_empty() {
                rep.model_error(format!(
                    "reference machine M disagrees with the pest model without any stack operation involved: grammar={} rule={} input={:?}: M=({},{}) M_pest={:?}",
                    e.id, e.rules[ri].name, input, m_ok, m_end, pm
                ));
            }
        }
    } else if at_call != Atom::NonAtomic {
        // atomic caller: real pest through `__a_r = @{ r }` gives verdict and end offset only
        if let Some(p) = &pest {
            match p {
                PestObs::Ok { end, .. } => {
                    if !(m_ok && *end == m_end) {
                        // pest and M disagree for an atomic caller: M is validated only where they agree
                        rep.pest_undefined += 1;
                    } else {
                        defined = true;
                    }
                }
                PestObs::Fail => {
                    if m_ok {
                        rep.pest_undefined += 1;
                    } else {
                        defined = true;
                    }
                }
                _ => {
                    rep.pest_undefined += 1;
                }
            }
        }
    }
    Base {
        m: mres,
        pm,
        pm_stack,
        pest,
        defined,
        exp_ok,
        exp_end,
        exp_toks,
        m_toks,
        ill_founded,
    }
}

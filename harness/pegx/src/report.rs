//! Counters, violations and their JSON form.

use refpeg::json::J;
use std::collections::{BTreeMap, BTreeSet};

#[derive(Clone, Debug, Default)]
pub struct Violation {
    pub lens: String,
    /// classifier output: identifies the *kind* of counterexample (used for known findings)
    pub signature: String,
    pub grammar: String,
    pub family: String,
    pub options: String,
    pub rule: String,
    pub rule_def: String,
    pub input: String,
    pub form: String,
    pub a: usize,
    pub b: usize,
    pub init: Vec<String>,
    pub expected: String,
    pub actual: String,
    pub note: String,
}

impl Violation {
    pub fn rank(&self) -> (usize, usize, usize) {
        (self.input.len(), self.init.len(), self.rule_def.len())
    }
    pub fn to_json(&self) -> J {
        let mut j = J::obj();
        j.set("lens", J::s(&self.lens));
        j.set("signature", J::s(&self.signature));
        j.set("grammar", J::s(&self.grammar));
        j.set("family", J::s(&self.family));
        j.set("options", J::s(&self.options));
        j.set("rule", J::s(&self.rule));
        j.set("rule_def", J::s(&self.rule_def));
        j.set("input", J::s(&self.input));
        j.set("form", J::s(&self.form));
        j.set("a", J::i(self.a as u64));
        j.set("b", J::i(self.b as u64));
        j.set("init_stack", J::arr_s(&self.init));
        j.set("expected", J::s(&self.expected));
        j.set("actual", J::s(&self.actual));
        j.set("note", J::s(&self.note));
        j
    }
}

#[derive(Clone, Debug, Default)]
pub struct Report {
    pub grammars: BTreeSet<String>,
    pub rules: u64,
    pub cases: u64,
    pub nontrivial: u64,
    pub states: u64,
    pub transitions: u64,
    pub conformance_runs: u64,
    pub pest_undefined: u64,
    pub pest_panics: u64,
    pub impl_validated: u64,
    pub ill_founded: u64,
    pub max_len_done: usize,
    pub outcomes: BTreeSet<String>,
    pub cells: BTreeMap<String, u64>,
    pub samples: Vec<J>,
    pub violations: Vec<Violation>,
    pub violation_count: u64,
    pub signature_counts: BTreeMap<String, u64>,
    pub model_errors: Vec<String>,
    pub hangs: Vec<String>,
    pub determinism_checked: u64,
}

impl Report {
    pub fn cell(&mut self, k: &str) {
        *self.cells.entry(k.to_string()).or_insert(0) += 1;
    }
    pub fn outcome(&mut self, k: String) {
        if self.outcomes.len() < 5000 {
            self.outcomes.insert(k);
        }
    }
    pub fn violation(&mut self, v: Violation) {
        self.violation_count += 1;
        *self.signature_counts.entry(v.signature.clone()).or_insert(0) += 1;
        self.violations.push(v);
    }
    pub fn model_error(&mut self, s: String) {
        if self.model_errors.len() < 20 {
            self.model_errors.push(s);
        }
    }
    pub fn sample(&mut self, j: J) {
        if self.samples.len() < 3 {
            self.samples.push(j);
        }
    }

    /// Keep, per signature, the `cap` smallest counterexamples.
    pub fn trim(&mut self, cap: usize) {
        self.violations.sort_by_key(|v| (v.signature.clone(), v.rank()));
        let mut out: Vec<Violation> = vec![];
        let mut cur = String::new();
        let mut n = 0;
        for v in self.violations.drain(..) {
            if v.signature != cur {
                cur = v.signature.clone();
                n = 0;
            }
            if n < cap {
                out.push(v);
            }
            n += 1;
        }
        self.violations = out;
    }

    pub fn merge(&mut self, mut o: Report, cap: usize) {
        self.grammars.append(&mut o.grammars);
        self.rules += o.rules;
        self.cases += o.cases;
        self.nontrivial += o.nontrivial;
        self.states += o.states;
        self.transitions += o.transitions;
        self.conformance_runs += o.conformance_runs;
        self.pest_undefined += o.pest_undefined;
        self.pest_panics += o.pest_panics;
        self.impl_validated += o.impl_validated;
        self.ill_founded += o.ill_founded;
        self.determinism_checked += o.determinism_checked;
        self.max_len_done = self.max_len_done.max(o.max_len_done);
        for k in o.outcomes {
            self.outcome(k);
        }
        for (k, v) in o.cells {
            *self.cells.entry(k).or_insert(0) += v;
        }
        for s in o.samples {
            self.sample(s);
        }
        self.violation_count += o.violation_count;
        for (k, v) in o.signature_counts {
            *self.signature_counts.entry(k).or_insert(0) += v;
        }
        self.violations.append(&mut o.violations);
        if self.violations.len() > cap * 8 {
            self.trim(cap);
        }
        for e in o.model_errors {
            self.model_error(e);
        }
        self.hangs.append(&mut o.hangs);
    }

    pub fn to_json(&self, lens: &str, wall: f64, capped: bool) -> J {
        let mut me = self.clone();
        me.trim(8);
        let mut j = J::obj();
        j.set("lens", J::s(lens));
        j.set("wall_s", J::Num((wall * 100.0).round() / 100.0));
        j.set("capped", J::Bool(capped));
        j.set("grammars", J::i(me.grammars.len() as u64));
        j.set("rules", J::i(me.rules));
        j.set("cases", J::i(me.cases));
        j.set("nontrivial", J::i(me.nontrivial));
        j.set("states", J::i(me.states));
        j.set("transitions", J::i(me.transitions));
        j.set("conformance_runs", J::i(me.conformance_runs));
        j.set("pest_undefined", J::i(me.pest_undefined));
        j.set("pest_panics", J::i(me.pest_panics));
        j.set("impl_validated", J::i(me.impl_validated));
        j.set("ill_founded", J::i(me.ill_founded));
        j.set("determinism_checked", J::i(me.determinism_checked));
        j.set("max_len_done", J::i(me.max_len_done as u64));
        j.set("distinct_outcomes", J::i(me.outcomes.len() as u64));
        let mut cells = J::obj();
        for (k, v) in &me.cells {
            cells.set(k, J::i(*v));
        }
        j.set("cells", cells);
        j.set("samples", J::Arr(me.samples.clone()));
        j.set("violation_count", J::i(me.violation_count));
        let mut sc = J::obj();
        for (k, v) in &me.signature_counts {
            sc.set(k, J::i(*v));
        }
        j.set("signature_counts", sc);
        j.set("violations", J::Arr(me.violations.iter().map(|v| v.to_json()).collect()));
        j.set("model_errors", J::arr_s(&me.model_errors));
        j.set("hangs", J::arr_s(&me.hangs));
        j
    }
}

//! The lenses: what is enumerated, observed and compared for each property (DESIGN.md section 5).

use crate::base::{self, Base};
use crate::report::{Report, Violation};
use crate::Ctx;
use obs::{what, Call, Form, GrammarEntry, Obs, Req, WithCall};
use refpeg::enumerate;
use refpeg::grammar::{Ex, Grammar, Kind, Node, Target};
use refpeg::json::J;
use refpeg::m::{self, show_toks, Atom, Construct, Tok};
use std::collections::BTreeSet;

pub fn rule_selected(ctx: &Ctx, gi: usize, ri: usize) -> bool {
    let g = &ctx.grammars[gi];
    let name = &g.rules[ri].name;
    // wrapper-free corpus: every rule of the typed grammar is an entry point
    let _ = name;
    match ctx.opts.lens.as_str() {
        "C15" => g.rules[ri].kind != Kind::Silent && ctx.entries[gi].rules[ri].tree.is_some(),
        "C16" => ctx.entries[gi].rules[ri].getters.is_some(),
        "C17" => ctx.entries[gi].rules[ri].acc.is_some(),
        _ => true,
    }
}

fn rule_def(e: &GrammarEntry, name: &str) -> String {
    let pat = format!("{} = ", name);
    for line in e.src.lines() {
        if line.starts_with(&pat) {
            return line.to_string();
        }
    }
    String::new()
}

fn skip_defs(e: &GrammarEntry) -> String {
    let mut v = vec![];
    for line in e.src.lines() {
        if line.starts_with("WHITESPACE = ") || line.starts_with("COMMENT = ") {
            v.push(line.to_string());
        }
    }
    v.join(" ; ")
}

fn typed(e: &GrammarEntry, ri: usize, req: &Req) -> Result<Obs, String> {
    let f = e.rules[ri].typed;
    std::panic::catch_unwind(std::panic::AssertUnwindSafe(|| f(req))).map_err(|p| {
        if let Some(s) = p.downcast_ref::<String>() {
            s.clone()
        } else if let Some(s) = p.downcast_ref::<&str>() {
            s.to_string()
        } else {
            "panic".to_string()
        }
    })
}

struct Case<'a> {
    ctx: &'a Ctx,
    gi: usize,
    ri: usize,
    input: &'a str,
    form: Form,
    a: usize,
    b: usize,
    init: &'a [&'a str],
}

impl<'a> Case<'a> {
    fn e(&self) -> &'a GrammarEntry {
        &self.ctx.entries[self.gi]
    }
    fn g(&self) -> &'a Grammar {
        &self.ctx.grammars[self.gi]
    }
    fn req(&self, w: u32) -> Req<'a> {
        Req {
            s: self.input,
            a: self.a,
            b: self.b,
            form: self.form,
            init: self.init,
            what: w,
        }
    }
    fn violation(&self, sig: &str, expected: String, actual: String, note: String) -> Violation {
        let e = self.e();
        let name = e.rules[self.ri].name;
        let mut def = rule_def(e, name);
        let sk = skip_defs(e);
        if !sk.is_empty() {
            def = format!("{} ; {}", def, sk);
        }
        Violation {
            lens: self.ctx.opts.lens.clone(),
            signature: sig.to_string(),
            grammar: e.id.to_string(),
            family: e.family.to_string(),
            options: e.options.to_string(),
            rule: name.to_string(),
            rule_def: def,
            input: enumerate::escape(self.input),
            form: format!("{:?}", self.form),
            a: self.a,
            b: self.b,
            init: self.init.iter().map(|s| s.to_string()).collect(),
            expected,
            actual,
            note,
        }
    }
    /// Identification of the running case for the watchdog: grammar, rule and escaped input separated by
    /// U+0001 (so that the watchdog can re-run exactly this case in a fresh process), then a readable tail.
    fn id(&self) -> String {
        format!(
            "{}\u{1}{}\u{1}{}\u{1}{:?}[{}..{}]:{:?}",
            self.e().id,
            self.e().rules[self.ri].name,
            enumerate::escape(self.input),
            self.form,
            self.a,
            self.b,
            self.init
        )
    }
    fn sample(&self, what: &str, extra: J) -> J {
        let mut j = J::obj();
        j.set("grammar", J::s(self.e().id));
        j.set("rule_def", J::s(&rule_def(self.e(), self.e().rules[self.ri].name)));
        j.set("input", J::s(&enumerate::escape(self.input)));
        j.set("form", J::s(&format!("{:?}[{}..{}]", self.form, self.a, self.b)));
        j.set("init_stack", J::Arr(self.init.iter().map(|s| J::s(s)).collect()));
        j.set("observed", J::s(what));
        j.set("detail", extra);
        j
    }
}

/// The grammar is not well-founded on this input (a repetition iterates without progress or the
/// evaluation diverges): outside every property's statement, and the real parsers would not return.
fn ill_founded(g: &Grammar, ri: usize, input: &str) -> bool {
    // self-test of the watchdog only: let the real parser loop on a non-progressing repetition
    if std::env::var("PEGX_SELFTEST_NO_ILLFOUNDED_FILTER").is_ok() {
        return false;
    }
    let r = m::run(g, ri, input, "", &[], false, Atom::NonAtomic);
    r.diverged || r.nonprogress
}

fn inputs_for(ctx: &Ctx, e: &GrammarEntry, shrink: usize) -> Vec<String> {
    if let Some(s) = &ctx.opts.only_input {
        return vec![s.clone()];
    }
    if let Some(list) = e.inputs {
        if list.len() == 1 && list[0] == "<<ALL-SCALARS>>" {
            // every Unicode scalar value as a one-character string (thorough); quick: everything below
            // U+3000 plus the first, middle and last scalar of every later 256-block
            let mut v = vec![String::new()];
            for cp in 0u32..=0x10FFFF {
                if let Some(c) = char::from_u32(cp) {
                    let low = cp & 0xff;
                    if ctx.opts.thorough || cp < 0x3000 || low == 0 || low == 0x80 || low == 0xff {
                        v.push(c.to_string());
                    }
                }
            }
            return v;
        }
        return list.iter().map(|s| s.to_string()).collect();
    }
    let alpha: Vec<char> = e.alphabet.chars().collect();
    let n = ctx.len_for(e).saturating_sub(shrink);
    enumerate::strings(&alpha, n)
}

fn init_stacks(e: &GrammarEntry) -> Vec<Vec<&'static str>> {
    let mut out: Vec<Vec<&'static str>> = vec![vec![]];
    let mut layer: Vec<Vec<&'static str>> = vec![vec![]];
    for _ in 0..e.init_depth {
        let mut next = vec![];
        for s in &layer {
            for t in e.init_alphabet {
                let mut v = s.clone();
                v.push(*t);
                next.push(v);
            }
        }
        out.extend(next.iter().cloned());
        layer = next;
    }
    out
}

/// Rules reachable from the bodies of WHITESPACE / COMMENT (excluding those two themselves).
fn skip_reach(g: &Grammar) -> BTreeSet<u16> {
    fn walk(g: &Grammar, n: &Node, seen: &mut BTreeSet<usize>) {
        match &n.ex {
            Ex::Ident(_, Target::Rule(i)) => {
                if seen.insert(*i) {
                    walk(g, &g.rules[*i].body, seen);
                }
            }
            Ex::PosPred(e) | Ex::NegPred(e) | Ex::Opt(e) | Ex::Rep(e) | Ex::RepOnce(e) | Ex::Push(e) | Ex::Restore(e) => {
                walk(g, e, seen)
            }
            Ex::Seq(v) | Ex::Choice(v) => {
                for x in v {
                    walk(g, x, seen)
                }
            }
            _ => {}
        }
    }
    let mut seen = BTreeSet::new();
    for idx in [g.whitespace, g.comment].into_iter().flatten() {
        walk(g, &g.rules[idx].body, &mut seen);
    }
    seen.into_iter()
        .filter(|i| Some(*i) != g.whitespace && Some(*i) != g.comment)
        .map(|i| g.rule_id(i))
        .collect()
}

fn strip_rules(toks: &[Tok], drop: &BTreeSet<u16>) -> Vec<Tok> {
    toks.iter()
        .filter(|t| !drop.contains(&t.rule))
        .map(|t| Tok {
            rule: t.rule,
            start: t.start,
            end: t.end,
            children: strip_rules(&t.children, drop),
        })
        .collect()
}

fn contains_skip_until(g: &Grammar, ri: usize) -> bool {
    fn walk(g: &Grammar, n: &Node, seen: &mut BTreeSet<usize>) -> bool {
        match &n.ex {
            Ex::Skip(_) => true,
            Ex::Ident(_, Target::Rule(i)) => {
                if seen.insert(*i) {
                    walk(g, &g.rules[*i].body, seen)
                } else {
                    false
                }
            }
            Ex::PosPred(e) | Ex::NegPred(e) | Ex::Opt(e) | Ex::Rep(e) | Ex::RepOnce(e) | Ex::Push(e) | Ex::Restore(e) => {
                walk(g, e, seen)
            }
            Ex::Seq(v) | Ex::Choice(v) => v.iter().any(|x| walk(g, x, seen)),
            _ => false,
        }
    }
    let mut seen = BTreeSet::new();
    seen.insert(ri);
    walk(g, &g.rules[ri].body, &mut seen)
}

/// The grammar declares WHITESPACE or COMMENT as `!{ .. }`.
fn has_nonatomic_skip_rule(g: &Grammar) -> bool {
    [g.whitespace, g.comment]
        .into_iter()
        .flatten()
        .any(|i| g.rules[i].kind == Kind::NonAtomic)
}

/// The entry rule is WHITESPACE / COMMENT itself, declared normal or silent: called directly it gets the
/// entry point's non-atomic context (known finding: only the implicit skip and references force atomicity).
fn entry_is_inherited_skip_rule(g: &Grammar, ri: usize) -> bool {
    g.rules[ri].is_skip_rule && matches!(g.rules[ri].kind, Kind::Normal | Kind::Silent)
}
const SKIP_ENTRY_SIG: &str = "skip-rule-used-as-entry-point-not-matched-atomically";

fn pruned(g: &Grammar, toks: &[Tok]) -> Vec<Tok> {
    let mut v = toks.to_vec();
    m::prune(g, &mut v);
    v
}

fn call_str(c: &Option<Call>) -> String {
    match c {
        None => "-".into(),
        Some(c) if c.ok => format!("Ok(end={})", c.end),
        Some(c) => format!("Err(at {})", c.err.as_ref().map(|e| e.pos).unwrap_or(0)),
    }
}

fn with_str(c: &Option<WithCall>) -> String {
    match c {
        None => "-".into(),
        Some(c) if c.ok => format!(
            "Ok(end={}, stack={:?})",
            c.end,
            c.stack.iter().map(|s| s.text.as_str()).collect::<Vec<_>>()
        ),
        Some(_) => "None".into(),
    }
}

fn exp_str(b: &Base) -> String {
    if b.exp_ok {
        format!("Ok(end={}){}", b.exp_end, if b.defined { " [pest]" } else { " [M; pest undefined]" })
    } else {
        format!("Err{}", if b.defined { " [pest]" } else { " [M; pest undefined]" })
    }
}

pub fn explore_rule(ctx: &Ctx, gi: usize, ri: usize, rep: &mut Report, note: &dyn Fn(&str)) {
    let e = &ctx.entries[gi];
    rep.grammars.insert(e.id.to_string());
    rep.rules += 1;
    rep.max_len_done = rep.max_len_done.max(ctx.len_for(e));
    // Owning nondeterminism: the complete observation of the first cases of every rule is taken twice
    // and compared; a difference is reported under the running lens.
    if !matches!(ctx.opts.lens.as_str(), "C15" | "C16" | "C17") {
        let g = &ctx.grammars[gi];
        for input in inputs_for(ctx, e, 0).iter().take(12) {
            if ill_founded(g, ri, input) {
                continue;
            }
            let case = Case {
                ctx,
                gi,
                ri,
                input,
                form: Form::Str,
                a: 0,
                b: input.len(),
                init: &[],
            };
            note(&case.id());
            let w = what::PP | what::PF | what::CP | what::CF | what::ERRTEXT | what::DEBUG | what::WP;
            let (a, b) = (typed(e, ri, &case.req(w)), typed(e, ri, &case.req(w)));
            rep.determinism_checked += 1;
            if a != b {
                rep.violation(case.violation("nondeterministic-observation", "the same observation twice".into(), "two different observations".into(), String::new()));
            }
        }
    }
    match ctx.opts.lens.as_str() {
        "C01" => c01_c02(ctx, gi, ri, rep, note, false),
        "C02" => c01_c02(ctx, gi, ri, rep, note, true),
        "C03" => c03(ctx, gi, ri, rep, note),
        "C04" => c04(ctx, gi, ri, rep, note),
        "C05" | "C06" => c05(ctx, gi, ri, rep, note),
        "C07" => c07(ctx, gi, ri, rep, note),
        "C08" => c08(ctx, gi, ri, rep, note),
        "C09" => c09(ctx, gi, ri, rep, note),
        "C10" => c10(ctx, gi, ri, rep, note),
        "C11" => c11(ctx, gi, ri, rep, note),
        "C15" => c15(ctx, gi, ri, rep, note),
        "C16" => c16(ctx, gi, ri, rep, note),
        "C17" => c17(ctx, gi, ri, rep, note),
        "C18" => c18(ctx, gi, ri, rep, note),
        "C20" => c20(ctx, gi, ri, rep, note),
        other => {
            rep.model_error(format!("unknown lens {}", other));
        }
    }
}

// ---------------------------------------------------------------------------------------------
// C01 / C02

fn c01_c02(ctx: &Ctx, gi: usize, ri: usize, rep: &mut Report, note: &dyn Fn(&str), trees: bool) {
    let e = &ctx.entries[gi];
    let g = &ctx.grammars[gi];
    let inputs = inputs_for(ctx, e, 0);
    let reach = skip_reach(g);
    // `pest_optimizer = false`: the generator translates the unoptimized expression (how far that may differ
    // from pest is C20's business); here the answer of the reference machine on that expression is accepted
    // besides pest's
    let graw = if e.options.contains("pest_optimizer = false") {
        match Grammar::load_raw(e.src) {
            Ok(x) => Some(x),
            Err(err) => {
                rep.model_error(format!("unoptimized grammar does not load: {}", err));
                return;
            }
        }
    } else {
        None
    };
    let as_raw = |input: &str, pp: &Call, rep: &mut Report| -> bool {
        let gr = match &graw {
            Some(x) => x,
            None => return false,
        };
        let r = m::run(gr, ri, input, "", &[], false, Atom::NonAtomic);
        if r.diverged || r.nonprogress {
            return false;
        }
        let r_ok = r.ok.is_some();
        let r_end = r.ok.as_ref().map(|x| x.0).unwrap_or(0);
        let same = pp.ok == r_ok && (!r_ok || (pp.end == r_end && (!trees || pp.toks == pruned(gr, &base::m_toks_of(&r)))));
        if same {
            rep.cell("unoptimized-translation-behaves-as-the-unoptimized-expression-not-as-pest");
        }
        same
    };
    let max = ctx.len_for(e);
    for whole in &inputs {
      // for all-forms grammars also every Position / Span sub-input: the typed parser on the sub-input against
      // pest on the slice (offsets and token spans shifted by the start of the sub-input)
      let sub_ok = whole.chars().count() + 1 <= max || ctx.opts.only_input.is_some();
      for (form, a, b_end) in forms_of(e, whole, sub_ok) {
        let hi = if form == Form::Span { b_end } else { whole.len() };
        let input: &str = &whole[a..hi];
        let case = Case {
            ctx,
            gi,
            ri,
            input: whole,
            form,
            a,
            b: b_end,
            init: &[],
        };
        note(&case.id());
        let b = base::base(g, e, ri, input, &[], Atom::NonAtomic, rep);
        if b.ill_founded {
            rep.ill_founded += 1;
            continue;
        }
        rep.cases += 1;
        let mut o = match typed(e, ri, &case.req(what::PP)) {
            Ok(o) => o,
            Err(p) => {
                rep.violation(case.violation("typed-panic", exp_str(&b), format!("panic: {}", p), String::new()));
                continue;
            }
        };
        rep.impl_validated += 1;
        if a > 0 {
            // make the observation relative to the start of the sub-input
            let pp = o.pp.as_mut().unwrap();
            let mut in_range = !pp.ok || pp.end >= a;
            fn all_from(toks: &[Tok], a: usize) -> bool {
                toks.iter().all(|t| t.start >= a && t.end >= a && all_from(&t.children, a))
            }
            in_range &= all_from(&pp.toks, a);
            if !in_range {
                rep.violation(case.violation("offset-before-start-of-sub-input", exp_str(&b), call_str(&o.pp), String::new()));
                continue;
            }
            if pp.ok {
                pp.end -= a;
            }
            fn shift_back(toks: &mut [Tok], a: usize) {
                for t in toks.iter_mut() {
                    t.start -= a;
                    t.end -= a;
                    shift_back(&mut t.children, a);
                }
            }
            shift_back(&mut pp.toks, a);
        }
        let pp = o.pp.as_ref().unwrap();
        if !trees {
            if (b.exp_ok && b.exp_end > 0) || (!b.exp_ok && !input.is_empty()) {
                rep.nontrivial += 1;
            }
            rep.outcome(format!("{}:{}", b.exp_ok, b.exp_end));
            if (pp.ok != b.exp_ok || (pp.ok && pp.end != b.exp_end)) && !as_raw(input, pp, rep) {
                let sig = if entry_is_inherited_skip_rule(g, ri) {
                    SKIP_ENTRY_SIG
                } else if has_nonatomic_skip_rule(g) {
                    "recognition-with-nonatomic-skip-rule"
                } else {
                    "recognition-mismatch"
                };
                rep.violation(case.violation(sig, exp_str(&b), call_str(&o.pp), String::new()));
            } else if rep.samples.len() < 3 && b.exp_ok && b.exp_end > 0 {
                rep.sample(case.sample(&call_str(&o.pp), J::s(&exp_str(&b))));
            }
        } else {
            if !(pp.ok && b.exp_ok) {
                continue;
            }
            let exp = pruned(g, &b.exp_toks);
            if !exp.is_empty() {
                rep.nontrivial += 1;
            }
            rep.outcome(show_toks(g, &exp));
            if (exp != pp.toks || pp.end != b.exp_end) && graw.is_some() && as_raw(input, pp, rep) {
                continue;
            }
            if exp != pp.toks {
                let sig = if entry_is_inherited_skip_rule(g, ri) {
                    SKIP_ENTRY_SIG
                } else if !reach.is_empty() && strip_rules(&exp, &reach) == strip_rules(&pp.toks, &reach) {
                    "tokens-of-rules-inside-skip-rule-body"
                } else if has_nonatomic_skip_rule(g) {
                    "tree-with-nonatomic-skip-rule"
                } else {
                    "tree-mismatch"
                };
                rep.violation(case.violation(
                    sig,
                    format!("{}{}", show_toks(g, &exp), if b.defined { " [pest, pruned]" } else { " [M, pruned]" }),
                    show_toks(g, &pp.toks),
                    String::new(),
                ));
            } else if rep.samples.len() < 3 && exp.iter().map(|t| t.count()).sum::<usize>() >= 2 {
                rep.sample(case.sample(&show_toks(g, &pp.toks), J::s("equal to pest's tree after pruning")));
            }
        }
      }
    }
}

// ---------------------------------------------------------------------------------------------
// C03: check-only entry points agree with parsing

fn cmp_calls(p: &Call, c: &Call, partial: bool) -> Option<String> {
    if p.ok != c.ok {
        return Some(format!("verdicts differ: parse ok={} check ok={}", p.ok, c.ok));
    }
    if p.ok {
        if partial && p.end != c.end {
            return Some(format!("cursors differ: parse end={} check end={}", p.end, c.end));
        }
        None
    } else {
        let (pe, ce) = (p.err.as_ref().unwrap(), c.err.as_ref().unwrap());
        if pe != ce {
            return Some(format!(
                "error reports differ: parse [{}:{} @{}] {:?} / check [{}:{} @{}] {:?}",
                pe.line, pe.col, pe.pos, pe.text, ce.line, ce.col, ce.pos, ce.text
            ));
        }
        None
    }
}

fn forms_of(e: &GrammarEntry, s: &str, sub_ok: bool) -> Vec<(Form, usize, usize)> {
    let mut v = vec![(Form::Str, 0, s.len())];
    if e.all_forms && sub_ok {
        let bs = enumerate::boundaries(s);
        for &a in &bs {
            v.push((Form::Pos, a, s.len()));
        }
        for (i, &a) in bs.iter().enumerate() {
            for &b in &bs[i..] {
                v.push((Form::Span, a, b));
            }
        }
    }
    v
}

fn c03(ctx: &Ctx, gi: usize, ri: usize, rep: &mut Report, note: &dyn Fn(&str)) {
    let e = &ctx.entries[gi];
    let g = &ctx.grammars[gi];
    let inputs = inputs_for(ctx, e, 0);
    let max = ctx.len_for(e);
    // twin: atomic rule `aK` and normal rule `eK` with the same body in a grammar without skip rules
    let name = e.rules[ri].name;
    let twin = if !g.has_skip() && name.starts_with('a') && g.rules[ri].kind == Kind::Atomic {
        g.by_name.get(&format!("e{}", &name[1..])).copied()
    } else {
        None
    };
    for input in &inputs {
        let sub_ok = input.len() + 2 <= max || ctx.opts.only_input.is_some();
        for (form, a, b) in forms_of(e, input, sub_ok) {
            let case = Case {
                ctx,
                gi,
                ri,
                input,
                form,
                a,
                b,
                init: &[],
            };
            note(&case.id());
            let hi = if form == Form::Span { b } else { input.len() };
            if ill_founded(g, ri, &input[a..hi]) {
                rep.ill_founded += 1;
                continue;
            }
            rep.cases += 1;
            let o = match typed(e, ri, &case.req(what::PP | what::PF | what::CP | what::CF | what::ERRTEXT)) {
                Ok(o) => o,
                Err(p) => {
                    rep.violation(case.violation("typed-panic", "no panic".into(), format!("panic: {}", p), String::new()));
                    continue;
                }
            };
            rep.impl_validated += 1;
            let (pp, pf, cp, cf) = (o.pp.as_ref().unwrap(), o.pf.as_ref().unwrap(), o.cp.as_ref().unwrap(), o.cf.as_ref().unwrap());
            if !pp.ok || pp.end > a {
                rep.nontrivial += 1;
            }
            rep.outcome(format!("{}{}{}", pp.ok, pp.end as isize - a as isize, pf.ok));
            if let Some(d) = cmp_calls(pp, cp, true) {
                rep.violation(case.violation("partial-check-vs-parse", call_str(&o.pp), call_str(&o.cp), d));
            }
            if let Some(d) = cmp_calls(pf, cf, false) {
                rep.violation(case.violation("full-check-vs-parse", call_str(&o.pf), call_str(&o.cf), d));
            }
            if let (Some(t), Form::Str) = (twin, form) {
                // atomic rules are matched through the check path even while parsing
                if let Ok(o2) = typed(e, t, &case.req(what::PP)) {
                    let p2 = o2.pp.as_ref().unwrap();
                    if p2.ok != pp.ok || (pp.ok && p2.end != pp.end) {
                        rep.violation(case.violation(
                            "atomic-span-vs-parsed-content",
                            format!("{} (normal twin {})", call_str(&o2.pp), e.rules[t].name),
                            call_str(&o.pp),
                            "an atomic rule (check path) covers a different span than a normal rule with the same body (parse path)".into(),
                        ));
                    }
                    rep.cell("atomic-twin-compared");
                }
            }
            if rep.samples.len() < 3 && !pp.ok && form != Form::Str {
                rep.sample(case.sample(
                    &format!("parse {} / check {}", call_str(&o.pp), call_str(&o.cp)),
                    J::s(pp.err.as_ref().and_then(|e| e.text.as_deref()).unwrap_or("")),
                ));
            }
        }
    }
}

// ---------------------------------------------------------------------------------------------
// C04: full parse succeeds only on the whole input

fn c04(ctx: &Ctx, gi: usize, ri: usize, rep: &mut Report, note: &dyn Fn(&str)) {
    let e = &ctx.entries[gi];
    let g = &ctx.grammars[gi];
    let inputs = inputs_for(ctx, e, 0);
    let max = ctx.len_for(e);
    for input in &inputs {
        let sub_ok = input.len() + 2 <= max || ctx.opts.only_input.is_some();
        for (form, a, hi) in forms_of(e, input, sub_ok) {
            let case = Case {
                ctx,
                gi,
                ri,
                input,
                form,
                a,
                b: hi,
                init: &[],
            };
            note(&case.id());
            // the oracle for a sub-input is the reference machine on the slice (C08 ties both together)
            let slice = &input[a..hi];
            let b = if form == Form::Str {
                base::base(g, e, ri, input, &[], Atom::NonAtomic, rep)
            } else {
                let r = m::run(g, ri, slice, "", &[], true, Atom::NonAtomic);
                rep.states += r.stats.states;
                rep.transitions += r.stats.transitions;
                let ill = r.diverged || r.nonprogress;
                Base {
                    m_toks: base::m_toks_of(&r),
                    exp_ok: r.ok.is_some(),
                    exp_end: r.ok.as_ref().map(|x| x.0).unwrap_or(0),
                    exp_toks: vec![],
                    m: r,
                    pm: refpeg::mpest::POutcome::Diverge,
                    pm_stack: vec![],
                    pest: None,
                    defined: false,
                    ill_founded: ill,
                }
            };
            if b.ill_founded {
                rep.ill_founded += 1;
                continue;
            }
            rep.cases += 1;
            let w = what::PP | what::PF | what::CF | if form == Form::Str { what::EQH | what::TP } else { 0 };
            let o = match typed(e, ri, &case.req(w)) {
                Ok(o) => o,
                Err(p) => {
                    rep.violation(case.violation("typed-panic", "no panic".into(), format!("panic: {}", p), String::new()));
                    continue;
                }
            };
            rep.impl_validated += 1;
            let (pp, pf, cf) = (o.pp.as_ref().unwrap(), o.pf.as_ref().unwrap(), o.cf.as_ref().unwrap());
            let m_ok = b.m.ok.is_some();
            let m_end = b.m.ok.as_ref().map(|x| x.0).unwrap_or(0);
            if pp.ok != m_ok || (m_ok && pp.end != m_end + a) {
                // prefix recognition differs from the model: C01's / C08's business, the trailing-skip oracle does not apply
                rep.cell("skipped-prefix-differs-from-model");
                continue;
            }
            let full = b.m.full_ok.unwrap_or(false);
            if m_ok && m_end < slice.len() {
                rep.nontrivial += 1;
            }
            rep.outcome(format!("{}:{}:{}", m_ok, m_end as isize, full));
            if m_ok && m_end < slice.len() {
                if full {
                    rep.cell("accepted-after-trailing-skip");
                } else {
                    rep.cell("rejected-unread-input");
                }
            }
            if form != Form::Str {
                rep.cell("sub-input-form");
            }
            let sig_suffix = if has_nonatomic_skip_rule(g) { "-with-nonatomic-skip-rule" } else { "" };
            if pf.ok != full {
                rep.violation(case.violation(
                    &format!("try_parse-verdict{}", sig_suffix),
                    format!("full={} (prefix end {:?}, EOI tested at {:?}, offsets relative to the sub-input)", full, m_end, b.m.full_eoi_pos),
                    format!("try_parse ok={}", pf.ok),
                    String::new(),
                ));
            }
            if cf.ok != full {
                rep.violation(case.violation(
                    &format!("try_check-verdict{}", sig_suffix),
                    format!("full={}", full),
                    format!("try_check ok={}", cf.ok),
                    String::new(),
                ));
            }
            if let Some((tp, tc, same)) = o.tp {
                if tp != full || tc != full || !same {
                    rep.violation(case.violation(
                        &format!("typed-parser-convenience-methods{}", sig_suffix),
                        format!("full={}", full),
                        format!("TypedParser::try_parse ok={} try_check ok={} same tree as T::try_parse: {}", tp, tc, same),
                        String::new(),
                    ));
                }
                rep.cell("TypedParser-methods-compared");
            }
            if pf.ok && pf.toks != pp.toks {
                rep.violation(case.violation(
                    "full-tree-differs-from-prefix-tree",
                    show_toks(g, &pp.toks),
                    show_toks(g, &pf.toks),
                    String::new(),
                ));
            }
            if let Some(q) = &o.eqh {
                if q.full_eq_partial == Some(false) {
                    rep.violation(case.violation(
                        "full-tree-differs-from-prefix-tree",
                        "try_parse tree == try_parse_partial tree".into(),
                        "not equal (==, Debug or hash)".into(),
                        String::new(),
                    ));
                }
            }
            if rep.samples.len() < 3 && m_ok && m_end < slice.len() && full {
                rep.sample(case.sample(
                    &format!("prefix end {} of {}, try_parse ok={}", m_end, slice.len(), pf.ok),
                    J::s("trailing text is skippable"),
                ));
            }
        }
    }
}

// ---------------------------------------------------------------------------------------------
// C05 / C06 (E1 half): stack discipline against the immutable-stack reference machine

fn c05(ctx: &Ctx, gi: usize, ri: usize, rep: &mut Report, note: &dyn Fn(&str)) {
    let e = &ctx.entries[gi];
    let g = &ctx.grammars[gi];
    let inputs = inputs_for(ctx, e, 0);
    let stacks = init_stacks(e);
    // translated from the unoptimized AST: the reference machine runs on that expression
    let graw = if e.options.contains("pest_optimizer = false") {
        match Grammar::load_raw(e.src) {
            Ok(x) => Some(x),
            Err(err) => {
                rep.model_error(format!("unoptimized grammar does not load: {}", err));
                return;
            }
        }
    } else {
        None
    };
    for init in &stacks {
        for input in &inputs {
            let case = Case {
                ctx,
                gi,
                ri,
                input,
                form: Form::Str,
                a: 0,
                b: input.len(),
                init,
            };
            note(&case.id());
            let b = base::base(g, e, ri, input, init, Atom::NonAtomic, rep);
            if b.ill_founded {
                rep.ill_founded += 1;
                continue;
            }
            rep.cases += 1;
            let o = match typed(e, ri, &case.req(what::WP | what::WC)) {
                Ok(o) => o,
                Err(p) => {
                    rep.violation(case.violation("typed-panic", "no panic".into(), format!("panic: {}", p), String::new()));
                    continue;
                }
            };
            rep.impl_validated += 1;
            let touched: Vec<_> = b.m.backtracks.iter().filter(|x| x.touched_stack).collect();
            if !touched.is_empty() {
                rep.nontrivial += 1;
            }
            for t in &touched {
                rep.cell(&format!("{:?}/depth{}", t.construct, t.depth.min(3)));
                if matches!(t.construct, Construct::PosPred | Construct::NegPred) && t.attempt_matched {
                    rep.cell("predicate-matched-after-stack-change");
                }
            }
            if b.m.empty_stack_ops > 0 {
                rep.cell("empty-stack-operation");
            }
            if b.m.oob_slices > 0 {
                rep.cell("out-of-range-slice");
            }
            if !b.defined {
                rep.cell("pest-undefined");
            }
            let (ext, items) = base::ext_of(init);
            let raw_run = graw.as_ref().map(|gr| m::run(gr, ri, input, &ext, &items, false, Atom::NonAtomic));
            if let Some(r) = &raw_run {
                if r.diverged || r.nonprogress {
                    continue;
                }
            }
            let m_res = raw_run.as_ref().map(|r| &r.ok).unwrap_or(&b.m.ok);
            let m_ok = m_res.is_some();
            let (m_end, m_stack) = match m_res {
                Some((end, st, _)) => (*end, st.clone()),
                None => (0, vec![]),
            };
            let mach = m::Machine::new(g, input, &ext);
            let m_texts: Vec<String> = m_stack.iter().map(|i| mach.text(i).to_string()).collect();
            rep.outcome(format!("{}:{}:{:?}", m_ok, m_end, m_texts));
            let expected = if m_ok {
                format!("Ok(end={}, stack={:?}){}", m_end, m_texts, if b.defined { " [M = pest]" } else { " [M; pest undefined]" })
            } else {
                "None".to_string()
            };
            for (label, w) in [("parse", o.wp.as_ref().unwrap()), ("check", o.wc.as_ref().unwrap())] {
                let mut bad = None;
                if w.ok != m_ok {
                    bad = Some("verdict");
                } else if w.ok {
                    if w.end != m_end {
                        bad = Some("offset");
                    } else {
                        let texts: Vec<&str> = w.stack.iter().map(|s| s.text.as_str()).collect();
                        if texts != m_texts.iter().map(|s| s.as_str()).collect::<Vec<_>>() {
                            bad = Some("final-stack");
                        } else {
                            for (it, si) in m_stack.iter().zip(w.stack.iter()) {
                                if !it.ext && (si.start != it.a as usize || si.end != it.b as usize || !si.of_input) {
                                    bad = Some("final-stack-spans");
                                }
                            }
                        }
                    }
                    if bad.is_none() && w.snapshot_leak {
                        bad = Some("leaked-snapshot");
                    }
                }
                if let Some(kind) = bad {
                    rep.violation(case.violation(
                        &format!("stack-{}-{}", label, kind),
                        expected.clone(),
                        with_str(&Some(w.clone())),
                        format!("{}_partial_with from the given initial stack", if label == "parse" { "try_parse" } else { "try_check" }),
                    ));
                }
            }
            if rep.samples.len() < 3 && !touched.is_empty() && m_ok {
                rep.sample(case.sample(
                    &with_str(&o.wp),
                    J::s(&format!("{} abandoned attempts had changed the stack", touched.len())),
                ));
            }
        }
    }
}

// ---------------------------------------------------------------------------------------------
// C07: atomicity and implicit skipping

fn c07(ctx: &Ctx, gi: usize, ri: usize, rep: &mut Report, note: &dyn Fn(&str)) {
    let e = &ctx.entries[gi];
    let g = &ctx.grammars[gi];
    let inputs = inputs_for(ctx, e, 0);
    let reach = skip_reach(g);
    let kind = g.rules[ri].kind;
    // `pest_optimizer = false`: the generator translates the unoptimized expression; implicit skipping is
    // then judged against the reference machine on that expression (pest's own behaviour is accepted too)
    let graw = if e.options.contains("pest_optimizer = false") {
        match Grammar::load_raw(e.src) {
            Ok(x) => Some(x),
            Err(err) => {
                rep.model_error(format!("unoptimized grammar does not load: {}", err));
                return;
            }
        }
    } else {
        None
    };
    for input in &inputs {
        let case = Case {
            ctx,
            gi,
            ri,
            input,
            form: Form::Str,
            a: 0,
            b: input.len(),
            init: &[],
        };
        note(&case.id());
        let b = base::base(g, e, ri, input, &[], Atom::NonAtomic, rep);
        if b.ill_founded {
            rep.ill_founded += 1;
            continue;
        }
        if let Some(gr) = &graw {
            let r = m::run(gr, ri, input, "", &[], false, Atom::NonAtomic);
            rep.states += r.stats.states;
            rep.transitions += r.stats.transitions;
            if r.diverged || r.nonprogress {
                rep.ill_founded += 1;
                continue;
            }
            rep.cases += 1;
            let o = match typed(e, ri, &case.req(what::PP | what::CP)) {
                Ok(o) => o,
                Err(p) => {
                    rep.violation(case.violation("typed-panic", exp_str(&b), format!("panic: {}", p), String::new()));
                    continue;
                }
            };
            rep.impl_validated += 1;
            if r.skip_consumed > 0 || r.skip_suppressed > 0 {
                rep.nontrivial += 1;
            }
            let pp = o.pp.as_ref().unwrap();
            let cp = o.cp.as_ref().unwrap();
            let r_ok = r.ok.is_some();
            let r_end = r.ok.as_ref().map(|x| x.0).unwrap_or(0);
            let r_toks = pruned(gr, &base::m_toks_of(&r));
            rep.outcome(format!("raw:{}:{}:{}", r_ok, r_end, show_toks(gr, &r_toks)));
            let as_raw = pp.ok == r_ok && (!r_ok || (pp.end == r_end && pp.toks == r_toks));
            let as_pest = pp.ok == b.exp_ok && (!pp.ok || (pp.end == b.exp_end && pp.toks == pruned(g, &b.exp_toks)));
            if !as_raw && as_pest {
                rep.cell("unoptimized-translation-behaves-as-pest-not-as-the-unoptimized-expression");
            }
            if !as_raw && !as_pest {
                rep.violation(case.violation(
                    "skipping-differs-from-unoptimized-expression-and-from-pest",
                    format!(
                        "{} {} (unoptimized expression) or {}",
                        if r_ok { format!("Ok(end={})", r_end) } else { "None".into() },
                        show_toks(gr, &r_toks),
                        exp_str(&b)
                    ),
                    format!("{} {}", call_str(&o.pp), show_toks(g, &pp.toks)),
                    format!("options: {}", e.options),
                ));
            }
            if cp.ok != pp.ok || (pp.ok && cp.end != pp.end) {
                rep.violation(case.violation("check-differs-from-parse", call_str(&o.pp), call_str(&o.cp), format!("options: {}", e.options)));
            }
            continue;
        }
        rep.cases += 1;
        let drive0 = matches!(kind, Kind::Normal | Kind::Silent) && e.rules[ri].pest_atomic.is_some();
        let w = what::PP | what::PF | what::CF | if drive0 { what::ATOM0 } else { 0 };
        let o = match typed(e, ri, &case.req(w)) {
            Ok(o) => o,
            Err(p) => {
                rep.violation(case.violation("typed-panic", exp_str(&b), format!("panic: {}", p), String::new()));
                continue;
            }
        };
        rep.impl_validated += 1;
        let pp = o.pp.as_ref().unwrap();
        if b.m.skip_consumed > 0 || b.m.skip_suppressed > 0 {
            rep.nontrivial += 1;
        }
        for inv in &b.m.trace {
            if !inv.in_skip {
                if let Some(k) = g.kind_of(inv.rule) {
                    rep.cell(&format!("callee-{}-at-{:?}", k.letter(), inv.atom));
                }
            }
        }
        rep.outcome(format!("{}:{}:{}", b.exp_ok, b.exp_end, show_toks(g, &pruned(g, &b.exp_toks))));
        let nonatomic_skip = has_nonatomic_skip_rule(g);
        if pp.ok != b.exp_ok || (pp.ok && pp.end != b.exp_end) {
            let sig = if entry_is_inherited_skip_rule(g, ri) {
                SKIP_ENTRY_SIG
            } else if nonatomic_skip {
                "skip-rule-declared-nonatomic-not-matched-atomically"
            } else {
                "offset-mismatch"
            };
            rep.violation(case.violation(sig, exp_str(&b), call_str(&o.pp), String::new()));
        } else if pp.ok {
            let exp = pruned(g, &b.exp_toks);
            if exp != pp.toks {
                let sig = if entry_is_inherited_skip_rule(g, ri) {
                    SKIP_ENTRY_SIG
                } else if !reach.is_empty() && strip_rules(&exp, &reach) == strip_rules(&pp.toks, &reach) {
                    "tokens-of-rules-inside-skip-rule-body"
                } else if nonatomic_skip {
                    "skip-rule-declared-nonatomic-not-matched-atomically"
                } else {
                    "token-spans-mismatch"
                };
                rep.violation(case.violation(sig, show_toks(g, &exp), show_toks(g, &pp.toks), String::new()));
            }
        }
        // the trailing skip of a full parse (non-atomic entry rules only), on the parse and on the check path
        if let (Some(full), Some(pf), Some(cf)) = (b.m.full_ok, o.pf.as_ref(), o.cf.as_ref()) {
            if pp.ok == b.exp_ok && (!pp.ok || pp.end == b.exp_end) && b.m.ok.is_some() == b.exp_ok && !entry_is_inherited_skip_rule(g, ri) {
                for (label, c) in [("try_parse", pf), ("try_check", cf)] {
                    if c.ok != full {
                        let sig = if nonatomic_skip { "skip-rule-declared-nonatomic-not-matched-atomically" } else { "full-parse-trailing-skip" };
                        rep.violation(case.violation(sig, format!("full={}", full), format!("{} ok={}", label, c.ok), "prefix match, trailing skip (non-atomic entry rules only), end of input".into()));
                    }
                }
            }
        }
        if drive0 {
            // the same rule driven as `r::<0>` (atomic caller), against M for an atomic caller,
            // itself validated against pest's `@{ r }` wrapper
            let b0 = base::base(g, e, ri, input, &[], Atom::Atomic, rep);
            if !b0.ill_founded {
                let m_ok = b0.m.ok.is_some();
                let m_end = b0.m.ok.as_ref().map(|x| x.0).unwrap_or(0);
                if !b0.defined && b0.m.stack_ops == 0 && b0.m.empty_stack_ops == 0 {
                    rep.model_error(format!(
                        "M (atomic caller) disagrees with pest @-wrapper: grammar={} rule={} input={:?} M=({},{}) pest={:?}",
                        e.id, e.rules[ri].name, input, m_ok, m_end, b0.pest
                    ));
                }
                for (label, w0) in [("parse", o.w0p.as_ref().unwrap()), ("check", o.w0c.as_ref().unwrap())] {
                    if w0.ok != m_ok || (m_ok && w0.end != m_end) {
                        let sig = if nonatomic_skip {
                            "skip-rule-declared-nonatomic-not-matched-atomically".to_string()
                        } else {
                            format!("atomic-caller-{}", label)
                        };
                        rep.violation(case.violation(
                            &sig,
                            if m_ok { format!("Ok(end={}) for an atomic caller", m_end) } else { "None for an atomic caller".into() },
                            with_str(&Some(w0.clone())),
                            "rule instantiated with INHERITED = 0 and driven through try_*_partial_with".into(),
                        ));
                    }
                }
                if b0.m.skip_suppressed > 0 {
                    rep.cell("atomic-caller-suppressed-skip");
                }
            }
        }
        if rep.samples.len() < 3 && b.m.skip_consumed > 0 && b.exp_ok {
            rep.sample(case.sample(&format!("{} {}", call_str(&o.pp), show_toks(g, &pp.toks)), J::s(&exp_str(&b))));
        }
    }
}

// ---------------------------------------------------------------------------------------------
// C08: sub-inputs

fn shift_toks(toks: &[Tok], by: usize) -> Vec<Tok> {
    let mut v = toks.to_vec();
    for t in v.iter_mut() {
        t.shift(by);
    }
    v
}

fn c08(ctx: &Ctx, gi: usize, ri: usize, rep: &mut Report, note: &dyn Fn(&str)) {
    let e = &ctx.entries[gi];
    let g = &ctx.grammars[gi];
    if !e.all_forms {
        return;
    }
    let inputs = inputs_for(ctx, e, 0);
    let has_skip_until = contains_skip_until(g, ri);
    let w = what::PP | what::PF | what::CP | what::CF;
    for input in &inputs {
        let bs = enumerate::boundaries(input);
        let mut subs: Vec<(Form, usize, usize)> = vec![];
        for &a in &bs {
            subs.push((Form::Pos, a, input.len()));
        }
        for (i, &a) in bs.iter().enumerate() {
            for &b in &bs[i..] {
                subs.push((Form::Span, a, b));
            }
        }
        for (form, a, b) in subs {
            let case = Case {
                ctx,
                gi,
                ri,
                input,
                form,
                a,
                b,
                init: &[],
            };
            note(&case.id());
            if ill_founded(g, ri, &input[a..b]) {
                rep.ill_founded += 1;
                continue;
            }
            rep.cases += 1;
            let fresh: String = input[a..b].to_owned();
            let fcase = Case {
                ctx,
                gi,
                ri,
                input: &fresh,
                form: Form::Str,
                a: 0,
                b: fresh.len(),
                init: &[],
            };
            let (o, f) = match (typed(e, ri, &case.req(w)), typed(e, ri, &fcase.req(w))) {
                (Ok(o), Ok(f)) => (o, f),
                (Err(p), _) | (_, Err(p)) => {
                    rep.violation(case.violation("typed-panic", "no panic".into(), format!("panic: {}", p), String::new()));
                    continue;
                }
            };
            rep.impl_validated += 1;
            if b < input.len() || a > 0 {
                rep.nontrivial += 1;
            }
            let mut diffs = vec![];
            let (pp, fpp) = (o.pp.as_ref().unwrap(), f.pp.as_ref().unwrap());
            if pp.ok != fpp.ok {
                diffs.push(format!("try_parse_partial verdict {} vs {}", pp.ok, fpp.ok));
            } else if pp.ok {
                if pp.end != fpp.end + a {
                    diffs.push(format!("consumed {} vs {}", pp.end as isize - a as isize, fpp.end));
                }
                if pp.toks != shift_toks(&fpp.toks, a) {
                    diffs.push("tree differs".to_string());
                }
            }
            let (cp, fcp) = (o.cp.as_ref().unwrap(), f.cp.as_ref().unwrap());
            if cp.ok != fcp.ok || (cp.ok && cp.end != fcp.end + a) {
                diffs.push("try_check_partial differs".to_string());
            }
            let (pf, fpf) = (o.pf.as_ref().unwrap(), f.pf.as_ref().unwrap());
            if pf.ok != fpf.ok {
                diffs.push(format!("try_parse verdict {} vs {}", pf.ok, fpf.ok));
            } else if pf.ok && pf.toks != shift_toks(&fpf.toks, a) {
                diffs.push("full tree differs".to_string());
            }
            let (cf, fcf) = (o.cf.as_ref().unwrap(), f.cf.as_ref().unwrap());
            if cf.ok != fcf.ok {
                diffs.push("try_check differs".to_string());
            }
            rep.outcome(format!("{}:{}:{}", fpp.ok, fpp.end, fpf.ok));
            if !diffs.is_empty() {
                let sig = if has_skip_until && b < input.len() {
                    "skip-until-scans-beyond-span-end"
                } else {
                    "subinput-differs-from-slice"
                };
                rep.violation(case.violation(
                    sig,
                    format!("on a fresh copy of {:?}: partial {} full ok={}", fresh, call_str(&f.pp), fpf.ok),
                    format!("on the sub-input: partial {} full ok={}", call_str(&o.pp), pf.ok),
                    diffs.join("; "),
                ));
            } else if rep.samples.len() < 3 && b < input.len() && a > 0 && pp.ok && pp.end > a {
                rep.sample(case.sample(&call_str(&o.pp), J::s(&format!("same as parsing {:?} alone", fresh))));
            }
        }
    }
}

// ---------------------------------------------------------------------------------------------
// C09: totality and UTF-8 boundaries

fn fnv(h: &mut u64, s: &str) {
    for b in s.as_bytes() {
        *h ^= *b as u64;
        *h = h.wrapping_mul(0x100000001b3);
    }
}

fn check_offsets(s: &str, lo: usize, hi: usize, o: &Obs, bad: &mut Vec<String>) {
    let okb = |p: usize| p >= lo && p <= hi && s.is_char_boundary(p);
    fn toks_ok(toks: &[Tok], okb: &dyn Fn(usize) -> bool, bad: &mut Vec<String>, what: &str) {
        for t in toks {
            if !(okb(t.start) && okb(t.end) && t.start <= t.end) {
                bad.push(format!("{}: token span {}..{}", what, t.start, t.end));
            }
            toks_ok(&t.children, okb, bad, what);
        }
    }
    for (name, c) in [("try_parse_partial", &o.pp), ("try_parse", &o.pf), ("try_check_partial", &o.cp), ("try_check", &o.cf)] {
        if let Some(c) = c {
            if c.ok {
                if name.ends_with("partial") && !okb(c.end) {
                    bad.push(format!("{}: cursor {}", name, c.end));
                }
                toks_ok(&c.toks, &okb, bad, name);
            } else if let Some(er) = &c.err {
                if !okb(er.pos) {
                    bad.push(format!("{}: error location {}", name, er.pos));
                }
                if er.render_panicked {
                    bad.push(format!("{}: rendering the error panicked", name));
                }
            }
        }
    }
    if let Some(w) = &o.wp {
        if w.ok && !okb(w.end) {
            bad.push(format!("try_parse_partial_with: cursor {}", w.end));
        }
        for it in &w.stack {
            if it.of_input && !(okb(it.start) && okb(it.end)) {
                bad.push(format!("stack entry {}..{}", it.start, it.end));
            }
        }
        if !okb(w.tracker_pos) {
            bad.push(format!("tracker position {}", w.tracker_pos));
        }
    }
}

fn c09(ctx: &Ctx, gi: usize, ri: usize, rep: &mut Report, note: &dyn Fn(&str)) {
    let e = &ctx.entries[gi];
    let g = &ctx.grammars[gi];
    let inputs = inputs_for(ctx, e, 0);
    let max = ctx.len_for(e);
    let w = what::PP | what::PF | what::CP | what::CF | what::WP | what::ERRTEXT;
    let mut digest: u64 = 0xcbf29ce484222325;
    for input in &inputs {
        let sub_ok = input.chars().count() + 1 <= max || ctx.opts.only_input.is_some();
        for (form, a, b) in forms_of(e, input, sub_ok) {
            let case = Case {
                ctx,
                gi,
                ri,
                input,
                form,
                a,
                b,
                init: &[],
            };
            note(&case.id());
            let hi0 = if form == Form::Span { b } else { input.len() };
            if ill_founded(g, ri, &input[a..hi0]) {
                rep.ill_founded += 1;
                continue;
            }
            rep.cases += 1;
            let o = match typed(e, ri, &case.req(w)) {
                Ok(o) => o,
                Err(p) => {
                    rep.violation(case.violation("panic", "Ok or Err".into(), format!("panic: {}", p), String::new()));
                    fnv(&mut digest, "panic");
                    continue;
                }
            };
            rep.impl_validated += 1;
            if !input.is_ascii() {
                rep.nontrivial += 1;
            }
            let hi = if form == Form::Span { b } else { input.len() };
            let mut bad = vec![];
            check_offsets(input, a, hi, &o, &mut bad);
            if !bad.is_empty() {
                rep.violation(case.violation(
                    "offset-out-of-range-or-off-boundary",
                    format!("every offset within {}..{} on a character boundary", a, hi),
                    bad.join("; "),
                    String::new(),
                ));
            }
            let pp = o.pp.as_ref().unwrap();
            rep.outcome(format!("{}:{}", pp.ok, pp.end as isize - a as isize));
            fnv(&mut digest, &format!("{:?}", o));
            if rep.samples.len() < 3 && !input.is_ascii() && pp.ok && pp.end > a {
                rep.sample(case.sample(&call_str(&o.pp), J::s("all offsets in range and on boundaries")));
            }
        }
    }
    // digest of the complete observation records of this rule: compared between build profiles
    rep.cells.insert(format!("digest:{}:{}", e.id, e.rules[ri].name), digest >> 1);
}

// ---------------------------------------------------------------------------------------------
// C10: error reports

/// Offsets of an observation made on a sub-input starting at `a`, made relative to that start.
fn shift_obs(o: &Obs, a: usize) -> Result<Obs, String> {
    let mut o = o.clone();
    fn call(c: &mut Option<Call>, a: usize, name: &str) -> Result<(), String> {
        if let Some(c) = c {
            if c.ok {
                c.end = c.end.checked_sub(a).ok_or(format!("{}: cursor {}", name, c.end))?;
            }
            if let Some(er) = &mut c.err {
                er.pos = er.pos.checked_sub(a).ok_or(format!("{}: error location {}", name, er.pos))?;
            }
        }
        Ok(())
    }
    call(&mut o.pp, a, "try_parse_partial")?;
    call(&mut o.pf, a, "try_parse")?;
    for (w, name) in [(&mut o.wp, "wp"), (&mut o.wf, "wf"), (&mut o.wc, "wc"), (&mut o.wcf, "wcf")] {
        if let Some(w) = w {
            w.tracker_pos = w.tracker_pos.checked_sub(a).ok_or(format!("{}: tracker position {}", name, w.tracker_pos))?;
        }
    }
    Ok(o)
}

fn c10(ctx: &Ctx, gi: usize, ri: usize, rep: &mut Report, note: &dyn Fn(&str)) {
    let e = &ctx.entries[gi];
    let g = &ctx.grammars[gi];
    let inputs = inputs_for(ctx, e, 0);
    let max = ctx.len_for(e);
    let w = what::PP | what::PF | what::WP | what::WF | what::WC | what::WCF | what::ERRTEXT;
    for whole in &inputs {
      // sub-inputs (Position / Span of a longer string): the report is judged against the reference machine
      // run on the slice, offsets shifted by the start of the sub-input
      let sub_ok = whole.chars().count() + 1 <= max || ctx.opts.only_input.is_some();
      for (form, a, b_end) in forms_of(e, whole, sub_ok) {
        let hi = if form == Form::Span { b_end } else { whole.len() };
        let input = &whole[a..hi];
        let case = Case {
            ctx,
            gi,
            ri,
            input: whole,
            form,
            a,
            b: b_end,
            init: &[],
        };
        note(&case.id());
        let b = base::base(g, e, ri, input, &[], Atom::NonAtomic, rep);
        if b.ill_founded {
            rep.ill_founded += 1;
            continue;
        }
        let m_ok = b.m.ok.is_some();
        let m_end = b.m.ok.as_ref().map(|x| x.0).unwrap_or(0);
        let m_full = b.m.full_ok.unwrap_or(false);
        if m_ok && m_full {
            continue; // nothing is rejected
        }
        rep.cases += 1;
        let o = match typed(e, ri, &case.req(w)) {
            Ok(o) => o,
            Err(p) => {
                rep.violation(case.violation("typed-panic", "an error report".into(), format!("panic: {}", p), String::new()));
                continue;
            }
        };
        // determinism of the report
        match typed(e, ri, &case.req(w)) {
            Ok(o2) if o2 == o => rep.determinism_checked += 1,
            _ => rep.violation(case.violation(
                "report-not-deterministic",
                "identical observation on the second run".into(),
                "different".into(),
                String::new(),
            )),
        }
        rep.impl_validated += 1;
        let o = if a > 0 {
            match shift_obs(&o, a) {
                Ok(o) => o,
                Err(what) => {
                    rep.violation(case.violation(
                        "location-before-start-of-sub-input",
                        format!(">= {}", a),
                        what,
                        String::new(),
                    ));
                    continue;
                }
            }
        } else {
            o
        };
        let (pp, pf) = (o.pp.as_ref().unwrap(), o.pf.as_ref().unwrap());
        if pp.ok != m_ok || (m_ok && pp.end != m_end) || pf.ok != m_full {
            rep.cell("skipped-verdict-differs-from-model");
            continue;
        }
        let len = input.len();
        let okb = |p: usize| p <= len && input.is_char_boundary(p);
        let mut listed = 0usize;
        let mut check = |label: &str, c: &Call, wc: &WithCall, consumed: usize, full: bool, rep: &mut Report| {
            let er = match &c.err {
                Some(e) => e,
                None => return,
            };
            if !okb(er.pos) {
                rep.violation(case.violation("location-out-of-bounds", format!("0..={} on a boundary", len), format!("{}", er.pos), label.into()));
                return;
            }
            if er.render_panicked || er.text.is_none() {
                rep.violation(case.violation("render-panicked", "a rendered message".into(), "panic".into(), label.into()));
            }
            if er.pos < consumed {
                rep.violation(case.violation(
                    "location-before-consumed-prefix",
                    format!(">= {}", consumed),
                    format!("{}", er.pos),
                    label.into(),
                ));
            }
            if wc.tracker_pos != er.pos {
                rep.violation(case.violation(
                    "location-differs-from-tracker",
                    format!("{}", wc.tracker_pos),
                    format!("{}", er.pos),
                    label.into(),
                ));
            }
            // the rendered message names exactly the recorded rules, each under the right heading
            if let Some(text) = &er.text {
                let (mut tp, mut tn) = (std::collections::BTreeSet::new(), std::collections::BTreeSet::new());
                let mut rest = text.as_str();
                while let Some(i) = rest.find("xpected [") {
                    let negative = rest[..i].ends_with("Une") || rest[..i].ends_with("une");
                    let after = &rest[i + "xpected [".len()..];
                    let close = after.find(']').unwrap_or(after.len());
                    for name in after[..close].split(',').map(|x| x.trim()).filter(|x| !x.is_empty()) {
                        if negative {
                            tn.insert(name.to_string());
                        } else {
                            tp.insert(name.to_string());
                        }
                    }
                    rest = &after[close..];
                }
                let (mut sp, mut sn) = (std::collections::BTreeSet::new(), std::collections::BTreeSet::new());
                for at in &wc.attempts {
                    for r in &at.positives {
                        sp.insert(g.rule_name(*r).to_string());
                    }
                    for r in &at.negatives {
                        sn.insert(g.rule_name(*r).to_string());
                    }
                }
                if tp != sp || tn != sn {
                    rep.violation(case.violation(
                        "rendered-message-differs-from-recorded-attempts",
                        format!("expected {:?} unexpected {:?}", sp, sn),
                        format!("expected {:?} unexpected {:?} in {:?}", tp, tn, text),
                        label.into(),
                    ));
                } else {
                    rep.cell("rendered-message-compared");
                }
            }
            let l = wc.tracker_pos;
            for at in &wc.attempts {
                for r in &at.positives {
                    listed += 1;
                    let truthful = b.m.trace.iter().any(|i| i.rule == *r && i.pos == l && !i.ok)
                        || (full && *r == 0 && l < len);
                    if !truthful {
                        rep.violation(case.violation(
                            "expected-rule-did-not-fail-there",
                            format!("a failed attempt of {} at {}", g.rule_name(*r), l),
                            format!("listed as expected at {}", l),
                            label.into(),
                        ));
                    }
                }
                for r in &at.negatives {
                    listed += 1;
                    let truthful = b.m.trace.iter().any(|i| i.rule == *r && i.pos == l && i.ok);
                    if !truthful {
                        rep.violation(case.violation(
                            "unexpected-rule-did-not-match-there",
                            format!("a successful attempt of {} at {}", g.rule_name(*r), l),
                            format!("listed as unexpected at {}", l),
                            label.into(),
                        ));
                    }
                }
            }
        };
        if !pp.ok {
            check("try_parse_partial", pp, o.wp.as_ref().unwrap(), 0, false, rep);
            let wc = o.wc.as_ref().unwrap();
            let wp = o.wp.as_ref().unwrap();
            if wc.tracker_pos != wp.tracker_pos || wc.attempts != wp.attempts {
                rep.violation(case.violation(
                    "check-tracker-differs-from-parse-tracker",
                    format!("{:?}", wp.attempts),
                    format!("{:?}", wc.attempts),
                    "raw attempt lists of try_check_partial_with vs try_parse_partial_with".into(),
                ));
            }
        }
        if !pf.ok {
            check("try_parse", pf, o.wf.as_ref().unwrap(), if m_ok { m_end } else { 0 }, true, rep);
            let (wf, wcf) = (o.wf.as_ref().unwrap(), o.wcf.as_ref().unwrap());
            if wf.tracker_pos != wcf.tracker_pos || wf.attempts != wcf.attempts {
                rep.violation(case.violation(
                    "check-tracker-differs-from-parse-tracker",
                    format!("{:?}", wf.attempts),
                    format!("{:?}", wcf.attempts),
                    "raw attempt lists of try_check_with vs try_parse_with".into(),
                ));
            }
        }
        if listed > 0 {
            rep.nontrivial += 1;
        }
        rep.outcome(format!(
            "{}:{}",
            pf.err.as_ref().map(|e| e.pos as isize).unwrap_or(-1),
            o.wf.as_ref().map(|w| format!("{:?}", w.attempts)).unwrap_or_default()
        ));
        if rep.samples.len() < 3 && listed > 0 && m_ok {
            rep.sample(case.sample(
                pf.err.as_ref().and_then(|e| e.text.as_deref()).unwrap_or(""),
                J::s(&format!("prefix matched up to {}, error at {}", m_end, pf.err.as_ref().map(|e| e.pos).unwrap_or(0))),
            ));
        }
      }
    }
}

// ---------------------------------------------------------------------------------------------

// C11 (termination half): every parse of every input returns on well-founded grammar/input pairs.
// The watchdog in `pegx::main` turns a parse that does not return into a HANG report.

fn c11(ctx: &Ctx, gi: usize, ri: usize, rep: &mut Report, note: &dyn Fn(&str)) {
    let e = &ctx.entries[gi];
    let g = &ctx.grammars[gi];
    let inputs = inputs_for(ctx, e, 0);
    let w = what::PP | what::PF | what::CP | what::CF;
    let max = ctx.len_for(e);
    for whole in &inputs {
      // all-forms grammars: also every Position / Span sub-input (well-foundedness judged on the slice)
      let sub_ok = whole.chars().count() + 1 <= max || ctx.opts.only_input.is_some();
      for (form, a, b_end) in forms_of(e, whole, sub_ok) {
        let hi = if form == Form::Span { b_end } else { whole.len() };
        let input: &str = &whole[a..hi];
        let case = Case {
            ctx,
            gi,
            ri,
            input: whole,
            form,
            a,
            b: b_end,
            init: &[],
        };
        let r = m::run(g, ri, input, "", &[], false, Atom::NonAtomic);
        rep.states += r.stats.states;
        rep.transitions += r.stats.transitions;
        if r.diverged || r.nonprogress {
            rep.ill_founded += 1;
            continue;
        }
        note(&case.id());
        rep.cases += 1;
        match typed(e, ri, &case.req(w)) {
            Ok(o) => {
                rep.impl_validated += 1;
                if r.stats.transitions > 8 {
                    rep.nontrivial += 1;
                }
                let pp = o.pp.as_ref().unwrap();
                rep.outcome(format!("{}:{}", pp.ok, pp.end));
                if rep.samples.len() < 2 && r.stats.transitions > 30 {
                    rep.sample(case.sample(&call_str(&o.pp), J::s(&format!("returned; the reference machine needed {} steps", r.stats.transitions))));
                }
            }
            Err(p) => rep.violation(case.violation("typed-panic", "returns".into(), format!("panic: {}", p), String::new())),
        }
      }
    }
}

// ---------------------------------------------------------------------------------------------
// C15: traversal helpers

fn pre_order_ref(t: &Tok, depth: usize, out: &mut Vec<(u16, usize, usize, usize)>) {
    out.push((t.rule, t.start, t.end, depth));
    for c in &t.children {
        pre_order_ref(c, depth + 1, out);
    }
}

fn level_order_ref(t: &Tok) -> Vec<(u16, usize, usize)> {
    let mut out = vec![];
    let mut level = vec![t];
    while !level.is_empty() {
        let mut next = vec![];
        for x in level {
            out.push((x.rule, x.start, x.end));
            for c in &x.children {
                next.push(c);
            }
        }
        level = next;
    }
    out
}

fn nesting_ok(t: &Tok) -> bool {
    let mut prev_end = t.start;
    for c in &t.children {
        if !(c.start >= prev_end && c.start <= c.end && c.end <= t.end && nesting_ok(c)) {
            return false;
        }
        prev_end = c.end;
    }
    true
}

fn render_expected(g: &Grammar, input: &str, t: &Tok, depth: usize, out: &mut String) {
    let name = g.rule_name(t.rule);
    if t.children.is_empty() {
        out.push_str(&format!("{}{} {:?}\n", "    ".repeat(depth), name, &input[t.start..t.end]));
    } else {
        out.push_str(&format!("{}{}\n", "    ".repeat(depth), name));
    }
    for c in &t.children {
        render_expected(g, input, c, depth + 1, out);
    }
}

fn c15(ctx: &Ctx, gi: usize, ri: usize, rep: &mut Report, note: &dyn Fn(&str)) {
    let e = &ctx.entries[gi];
    let g = &ctx.grammars[gi];
    let inputs = inputs_for(ctx, e, 0);
    let runner = match e.rules[ri].tree {
        Some(r) => r,
        None => return,
    };
    for input in &inputs {
        let case = Case {
            ctx,
            gi,
            ri,
            input,
            form: Form::Str,
            a: 0,
            b: input.len(),
            init: &[],
        };
        note(&case.id());
        let b = base::base(g, e, ri, input, &[], Atom::NonAtomic, rep);
        if b.ill_founded || !b.exp_ok {
            continue;
        }
        rep.cases += 1;
        let req = case.req(what::TREE);
        let o = match std::panic::catch_unwind(std::panic::AssertUnwindSafe(|| runner(&req))) {
            Ok(Some(o)) => o,
            Ok(None) => {
                rep.cell("skipped-typed-rejects");
                continue;
            }
            Err(_) => {
                rep.violation(case.violation("typed-panic", "traversals".into(), "panic".into(), String::new()));
                continue;
            }
        };
        rep.impl_validated += 1;
        // reference traversals run over the typed token tree itself; that tree is tied to pest by C02
        let exp = pruned(g, &b.exp_toks);
        let root_owned = match &o.token {
            Some(t) => t.clone(),
            None => continue,
        };
        let root = &root_owned;
        if exp.len() != 1 || &exp[0] != root {
            // The helpers enumerate a tree: it has to be the pair tree (pest's, pruned).  Only C02's known finding
            // (tokens of rules inside skip-rule bodies, skip rules as entry points) and, for grammars translated from
            // the unoptimized AST, the tree of the reference machine on that expression are accepted instead.
            let reach = skip_reach(g);
            let known = entry_is_inherited_skip_rule(g, ri)
                || (!reach.is_empty() && strip_rules(&exp, &reach) == strip_rules(&[root_owned.clone()], &reach));
            let mut as_raw = false;
            if e.options.contains("pest_optimizer = false") {
                if let Ok(gr) = Grammar::load_raw(e.src) {
                    let r = m::run(&gr, ri, input, "", &[], false, Atom::NonAtomic);
                    if !(r.diverged || r.nonprogress) {
                        as_raw = pruned(&gr, &base::m_toks_of(&r)) == vec![root_owned.clone()];
                    }
                }
            }
            if known {
                rep.cell("token-tree-differs-from-pest (C02's known finding)");
            } else if as_raw {
                rep.cell("token-tree-of-the-unoptimized-expression");
            } else {
                rep.violation(case.violation(
                    "helpers-enumerate-a-tree-that-is-not-the-pair-tree",
                    show_toks(g, &exp),
                    show_toks(g, &[root_owned.clone()]),
                    "as_token() against pest's tree (descendants of @/$ tokens removed)".into(),
                ));
            }
        }
        let exp = vec![root_owned.clone()];
        let count = root.count();
        if count >= 2 {
            rep.nontrivial += 1;
        }
        rep.outcome(format!("{}", show_toks(g, &exp)));
        let mut bad: Vec<(&str, String, String)> = vec![];
        if o.token.as_ref() != Some(root) {
            bad.push(("as-token", show_toks(g, &exp), o.token.as_ref().map(|t| show_toks(g, &[t.clone()])).unwrap_or_default()));
        }
        if o.thin.as_ref() != Some(root) || !o.thin_matches_spanned {
            bad.push(("thin-token", show_toks(g, &exp), o.thin.as_ref().map(|t| show_toks(g, &[t.clone()])).unwrap_or_default()));
        }
        if o.children != root.children {
            bad.push(("children", show_toks(g, &root.children), show_toks(g, &o.children)));
        }
        if !nesting_ok(root) {
            bad.push(("span-nesting", "children nested in the parent and ordered".into(), show_toks(g, &exp)));
        }
        if o.has_tree {
            let mut pre = vec![];
            pre_order_ref(root, 0, &mut pre);
            if o.pre_order != pre {
                bad.push(("pre-order", format!("{:?}", pre), format!("{:?}", o.pre_order)));
            }
            let lvl = level_order_ref(root);
            if o.level_order != lvl {
                bad.push(("level-order", format!("{:?}", lvl), format!("{:?}", o.level_order)));
            }
            let mut r = String::new();
            render_expected(g, input, root, 0, &mut r);
            if o.formatted.as_deref() != Some(r.as_str()) {
                bad.push(("format-as-tree", r.clone(), o.formatted.clone().unwrap_or_default()));
            }
            let want: Vec<usize> = (1..=count).collect();
            if o.early_exit_pre != want {
                bad.push(("early-exit-pre-order", format!("{:?}", want), format!("{:?}", o.early_exit_pre)));
            }
            if o.early_exit_level != want {
                bad.push(("early-exit-level-order", format!("{:?}", want), format!("{:?}", o.early_exit_level)));
            }
        }
        for (sig, ex, ac) in bad {
            rep.violation(case.violation(sig, ex, ac, String::new()));
        }
        if rep.samples.len() < 3 && count >= 4 && o.has_tree {
            rep.sample(case.sample(o.formatted.as_deref().unwrap_or(""), J::s(&format!("pre-order {:?}", o.pre_order))));
        }
    }
}

// ---------------------------------------------------------------------------------------------
// C16: generated getters

#[derive(Clone, Debug, PartialEq)]
enum Shape {
    R,
    Opt(Box<Shape>),
    Vec(Box<Shape>),
    Tuple(Vec<Shape>),
}

impl Shape {
    fn show(&self) -> String {
        match self {
            Shape::R => "R".into(),
            Shape::Opt(x) => format!("Option<{}>", x.show()),
            Shape::Vec(x) => format!("Vec<{}>", x.show()),
            Shape::Tuple(v) => format!("({})", v.iter().map(|x| x.show()).collect::<Vec<_>>().join(",")),
        }
    }
}

fn opt_shape(s: Shape) -> Shape {
    // directly nested options collapse
    match s {
        Shape::Opt(_) => s,
        other => Shape::Opt(Box::new(other)),
    }
}

fn join_shapes(v: Vec<Shape>) -> Option<Shape> {
    match v.len() {
        0 => None,
        1 => v.into_iter().next(),
        _ => Some(Shape::Tuple(v)),
    }
}

/// Shape of the getter for `name` over expression `n`: wrapped by Option for `?` / an alternative,
/// by Vec for a repetition, a tuple for several mentions.
fn shape_of(n: &Node, name: &str) -> Option<Shape> {
    match &n.ex {
        Ex::Ident(id, _) => {
            if id == name {
                Some(Shape::R)
            } else {
                None
            }
        }
        Ex::NegPred(_) => None,
        Ex::PosPred(e) | Ex::Push(e) | Ex::Restore(e) => shape_of(e, name),
        Ex::Opt(e) => shape_of(e, name).map(opt_shape),
        Ex::Rep(e) | Ex::RepOnce(e) | Ex::RepCount(e, _, _) => shape_of(e, name).map(|s| Shape::Vec(Box::new(s))),
        Ex::Seq(v) => join_shapes(v.iter().filter_map(|x| shape_of(x, name)).collect()),
        Ex::Choice(v) => join_shapes(v.iter().filter_map(|x| shape_of(x, name).map(opt_shape)).collect()),
        _ => None,
    }
}

/// The value the getter for `name` must return for the match tree `m` of expression `n`, slot by slot, in the
/// notation of `obs::getters::Flat::slots` (built by the same recursion as `shape_of`).
fn value_of(n: &Node, m: &m::MNode, name: &str) -> Option<String> {
    use m::MNode as MN;
    shape_of(n, name)?;
    let opt = |inner: &Node, x: &MN| -> Option<String> {
        let v = value_of(inner, x, name)?;
        // directly nested options collapse
        Some(if matches!(shape_of(inner, name), Some(Shape::Opt(_))) { v } else { format!("S{}", v) })
    };
    match (&n.ex, m) {
        (Ex::Ident(..), MN::Rule { .. }) | (Ex::Ident(..), MN::Builtin { .. }) | (Ex::Ident(..), MN::Leaf { .. }) => Some("#".into()),
        (Ex::PosPred(e), MN::Pos(x)) | (Ex::Push(e), MN::Push(x)) => value_of(e, x, name),
        (Ex::Restore(e), x) => value_of(e, x, name),
        (Ex::Opt(e), MN::Opt(o)) => match o {
            Some(x) => opt(e, x),
            None => Some("N".into()),
        },
        (Ex::Rep(e), MN::Rep(v)) | (Ex::RepOnce(e), MN::Rep(v)) | (Ex::RepCount(e, _, _), MN::Rep(v)) => {
            let items: Option<Vec<String>> = v.iter().map(|(_, x)| value_of(e, x, name)).collect();
            Some(format!("[{}]", items?.join(",")))
        }
        (Ex::Seq(es), MN::Seq(ms)) if es.len() == ms.len() => {
            let mut vals = vec![];
            for (e, (_, x)) in es.iter().zip(ms.iter()) {
                if shape_of(e, name).is_some() {
                    vals.push(value_of(e, x, name)?);
                }
            }
            Some(if vals.len() == 1 { vals.pop().unwrap() } else { format!("({})", vals.join(",")) })
        }
        (Ex::Choice(es), MN::Choice(idx, x)) => {
            let mut vals = vec![];
            for (i, e) in es.iter().enumerate() {
                if shape_of(e, name).is_some() {
                    vals.push(if i == *idx { opt(e, x)? } else { "N".to_string() });
                }
            }
            Some(if vals.len() == 1 { vals.pop().unwrap() } else { format!("({})", vals.join(",")) })
        }
        _ => None,
    }
}

/// Direct matches of `name` in the match tree of a rule body, in expression order
/// (not descending into other rules, nothing from negative predicates).
fn direct_matches(n: &m::MNode, g: &Grammar, name: &str, out: &mut Vec<(usize, usize)>) {
    use m::MNode::*;
    match n {
        Leaf { .. } | Neg => {}
        Rule { rule, start, end, .. } => {
            if g.rule_name(*rule) == name {
                out.push((*start, *end));
            }
        }
        Builtin { name: bn, start, end, .. } => {
            if bn == name {
                out.push((*start, *end));
            }
        }
        Seq(v) | Rep(v) => {
            for (_, x) in v {
                direct_matches(x, g, name, out);
            }
        }
        Choice(_, x) | Push(x) | Pos(x) => direct_matches(x, g, name, out),
        Opt(o) => {
            if let Some(x) = o {
                direct_matches(x, g, name, out)
            }
        }
    }
}

fn c16(ctx: &Ctx, gi: usize, ri: usize, rep: &mut Report, note: &dyn Fn(&str)) {
    let e = &ctx.entries[gi];
    // with `pest_optimizer = false` the getters are derived from the unoptimized expression: the reference
    // machine and the shape oracle then work on that expression too
    let graw;
    let g = if e.options.contains("pest_optimizer = false") {
        match Grammar::load_raw(e.src) {
            Ok(x) => {
                graw = x;
                &graw
            }
            Err(err) => {
                rep.model_error(format!("unoptimized grammar does not load: {}", err));
                return;
            }
        }
    } else {
        &ctx.grammars[gi]
    };
    let raw = e.options.contains("pest_optimizer = false");
    let inputs = inputs_for(ctx, e, 0);
    let runner = match e.rules[ri].getters {
        Some(r) => r,
        None => return,
    };
    for input in &inputs {
        let case = Case {
            ctx,
            gi,
            ri,
            input,
            form: Form::Str,
            a: 0,
            b: input.len(),
            init: &[],
        };
        note(&case.id());
        let mres = if raw {
            let r = m::run(g, ri, input, "", &[], false, Atom::NonAtomic);
            rep.states += r.stats.states;
            rep.transitions += r.stats.transitions;
            r
        } else {
            let b = base::base(g, e, ri, input, &[], Atom::NonAtomic, rep);
            if b.ill_founded {
                continue;
            }
            b.m
        };
        if mres.diverged || mres.nonprogress || mres.ok.is_none() {
            continue;
        }
        let (m_end, body) = match &mres.ok {
            Some((end, _, m::MNode::Rule { inner, .. })) => (*end, inner.as_ref().clone()),
            _ => continue,
        };
        // the typed parse must be the one the model describes (C01's business otherwise)
        let pp = match typed(e, ri, &case.req(what::PP | what::DEBUG)) {
            Ok(o) => o.pp.unwrap(),
            Err(_) => continue,
        };
        if !pp.ok || pp.end != m_end {
            rep.cell("skipped-prefix-differs-from-model");
            continue;
        }
        rep.cases += 1;
        let req = case.req(what::GETTERS);
        let got = match std::panic::catch_unwind(std::panic::AssertUnwindSafe(|| runner(&req))) {
            Ok(Some(v)) => v,
            Ok(None) => continue,
            Err(_) => {
                rep.violation(case.violation("typed-panic", "getter values".into(), "panic".into(), String::new()));
                continue;
            }
        };
        rep.impl_validated += 1;
        let debug = pp.debug.clone().unwrap_or_default();
        let mut any = false;
        for go in &got {
            let name = go.name;
            let mut exp = vec![];
            direct_matches(&body, g, name, &mut exp);
            if !exp.is_empty() {
                any = true;
            }
            let exp_shape = shape_of(&g.rules[ri].body, name).map(|s| s.show()).unwrap_or_default();
            rep.outcome(format!("{}:{}", exp_shape, exp.len()));
            rep.cell(&format!("shape:{}", exp_shape));
            if go.shape != exp_shape {
                rep.violation(case.violation(
                    "getter-shape",
                    format!("{}() : {}", name, exp_shape),
                    format!("{}() : {}", name, go.shape),
                    String::new(),
                ));
                continue;
            }
            let got_spans: Vec<Option<(usize, usize)>> = go.leaves.iter().map(|l| l.span).collect();
            let mut bad = go.leaves.len() != exp.len();
            if !bad {
                for (l, ex) in go.leaves.iter().zip(exp.iter()) {
                    if let Some(sp) = l.span {
                        if sp != *ex {
                            bad = true;
                        }
                    }
                }
            }
            if bad {
                rep.violation(case.violation(
                    "getter-nodes",
                    format!("{}() yields the direct matches {:?}", name, exp),
                    format!("{} nodes with spans {:?}", go.leaves.len(), got_spans),
                    String::new(),
                ));
                continue;
            }
            // slot by slot: which alternative / optional / iteration each node sits in
            match value_of(&g.rules[ri].body, &body, name) {
                Some(v) => {
                    rep.cell("slots-compared");
                    if v != go.slots {
                        rep.violation(case.violation(
                            "getter-slots",
                            format!("{}() = {}", name, v),
                            format!("{}() = {}", name, go.slots),
                            "# node, N / S.. Option, [..] Vec, (..) tuple".into(),
                        ));
                        continue;
                    }
                }
                None => rep.cell("slots-not-derivable"),
            }
            // "the very node stored in r's content": the Debug renderings occur in r's rendering, in order
            let mut from = 0usize;
            for l in &go.leaves {
                match debug[from..].find(&l.debug) {
                    Some(i) => from += i + 1,
                    None => {
                        rep.violation(case.violation(
                            "getter-node-not-in-content",
                            format!("{} inside the content of {}", l.debug, e.rules[ri].name),
                            "not found (in order)".into(),
                            String::new(),
                        ));
                        break;
                    }
                }
            }
        }
        if any {
            rep.nontrivial += 1;
        }
        if rep.samples.len() < 3 && got.iter().any(|x| x.leaves.len() >= 2) {
            let gx = got.iter().find(|x| x.leaves.len() >= 2).unwrap();
            rep.sample(case.sample(
                &format!("{}() : {} -> {:?}", gx.name, gx.shape, gx.leaves.iter().map(|l| l.span).collect::<Vec<_>>()),
                J::s("equals the direct matches recorded by the reference machine"),
            ));
        }
    }
}

// ---------------------------------------------------------------------------------------------
// C17: choice / sequence / repetition accessors

fn span_of_m(n: &m::MNode) -> Option<(usize, usize)> {
    use m::MNode::*;
    match n {
        Leaf { start, end } | Rule { start, end, .. } | Builtin { start, end, .. } => Some((*start, *end)),
        Seq(v) | Rep(v) => {
            let first = v.first().and_then(|x| span_of_m(&x.1))?;
            let last = v.last().and_then(|x| span_of_m(&x.1))?;
            Some((first.0, last.1))
        }
        Choice(_, x) | Push(x) => span_of_m(x),
        _ => None,
    }
}

fn skipped_spans(sk: &[m::MNode]) -> Vec<(usize, usize)> {
    let mut toks = vec![];
    for s in sk {
        s.tokens(&mut toks);
    }
    toks.iter().map(|t| (t.start, t.end)).collect()
}

fn c17(ctx: &Ctx, gi: usize, ri: usize, rep: &mut Report, note: &dyn Fn(&str)) {
    let e = &ctx.entries[gi];
    let g = &ctx.grammars[gi];
    let inputs = inputs_for(ctx, e, 0);
    let runner = match e.rules[ri].acc {
        Some(r) => r,
        None => return,
    };
    // translated from the unoptimized AST: the match tree of the reference machine on that expression
    let graw = if e.options.contains("pest_optimizer = false") {
        match Grammar::load_raw(e.src) {
            Ok(x) => Some(x),
            Err(err) => {
                rep.model_error(format!("unoptimized grammar does not load: {}", err));
                return;
            }
        }
    } else {
        None
    };
    for input in &inputs {
        let case = Case {
            ctx,
            gi,
            ri,
            input,
            form: Form::Str,
            a: 0,
            b: input.len(),
            init: &[],
        };
        note(&case.id());
        let b = base::base(g, e, ri, input, &[], Atom::NonAtomic, rep);
        if b.ill_founded {
            continue;
        }
        let raw_run = graw.as_ref().map(|gr| m::run(gr, ri, input, "", &[], false, Atom::NonAtomic));
        if let Some(r) = &raw_run {
            if r.diverged || r.nonprogress {
                continue;
            }
        }
        let body = match raw_run.as_ref().map(|r| &r.ok).unwrap_or(&b.m.ok) {
            Some((_, _, m::MNode::Rule { inner, .. })) => inner.as_ref().clone(),
            _ => continue,
        };
        if !b.defined {
            rep.cell("pest-undefined");
        }
        rep.cases += 1;
        let req = case.req(0);
        let o = match std::panic::catch_unwind(std::panic::AssertUnwindSafe(|| runner(&req))) {
            Ok(Some(o)) => o,
            Ok(None) => {
                rep.violation(case.violation("typed-rejects", exp_str(&b), "None".into(), String::new()));
                continue;
            }
            Err(_) => {
                rep.violation(case.violation("typed-panic", "accessor values".into(), "panic".into(), String::new()));
                continue;
            }
        };
        rep.impl_validated += 1;
        rep.nontrivial += 1;
        match (&body, o.kind) {
            (m::MNode::Choice(idx, inner), "choice") => {
                rep.cell(&format!("choice-arity-{}-alt-{}", o.accessors.len(), idx));
                rep.outcome(format!("choice:{}:{}", o.accessors.len(), idx));
                let some: Vec<usize> = o.accessors.iter().enumerate().filter(|(_, a)| a.is_some()).map(|(i, _)| i).collect();
                if some != vec![*idx] {
                    rep.violation(case.violation("choice-accessors", format!("only _{}() is Some", idx), format!("Some at {:?}", some), String::new()));
                } else if o.accessors[*idx] != span_of_m(inner) {
                    rep.violation(case.violation("choice-accessor-node", format!("{:?}", span_of_m(inner)), format!("{:?}", o.accessors[*idx]), String::new()));
                }
                if o.chain != Some(*idx) {
                    rep.violation(case.violation("choice-chain", format!("closure {}", idx), format!("closure {:?}", o.chain), "if_then / else_if / else_then".into()));
                }
                if o.match_choices != Some(*idx) {
                    rep.violation(case.violation("match-choices", format!("arm {}", idx), format!("arm {:?}", o.match_choices), String::new()));
                }
            }
            (m::MNode::Seq(items), "seq") => {
                let spans: Vec<(usize, usize)> = items.iter().filter_map(|x| span_of_m(&x.1)).collect();
                let sk: Vec<Vec<(usize, usize)>> = items.iter().map(|x| skipped_spans(&x.0)).collect();
                rep.cell(&format!("seq-arity-{}", items.len()));
                rep.outcome(format!("seq:{}:{}", items.len(), sk.iter().filter(|x| !x.is_empty()).count()));
                for (label, got) in [("get_matched", &o.get_matched), ("as_ref", &o.as_ref), ("into_matched", &o.into_matched), ("get_all", &o.get_all_matched)] {
                    if got != &spans {
                        rep.violation(case.violation(&format!("sequence-{}", label), format!("{:?}", spans), format!("{:?}", got), String::new()));
                    }
                }
                if o.skipped != sk {
                    rep.violation(case.violation("sequence-skipped", format!("{:?}", sk), format!("{:?}", o.skipped), "text skipped before each element".into()));
                }
                if sk.iter().any(|x| !x.is_empty()) {
                    rep.cell("sequence-with-skipped-text");
                }
            }
            (m::MNode::Rep(items), "rep") => {
                let spans: Vec<(usize, usize)> = items.iter().filter_map(|x| span_of_m(&x.1)).collect();
                let sk: Vec<Vec<(usize, usize)>> = items.iter().map(|x| skipped_spans(&x.0)).collect();
                rep.cell(&format!("rep-iterations-{}", items.len().min(9)));
                rep.outcome(format!("rep:{}", items.len()));
                for (label, got) in [("iter_matched", &o.iter_matched), ("into_iter_matched", &o.into_iter_matched), ("iter_all", &o.iter_all_matched)] {
                    if got != &spans {
                        rep.violation(case.violation(&format!("repetition-{}", label), format!("{:?}", spans), format!("{:?}", got), String::new()));
                    }
                }
                if o.skipped != sk {
                    rep.violation(case.violation("repetition-skipped", format!("{:?}", sk), format!("{:?}", o.skipped), String::new()));
                }
            }
            (other, k) => {
                rep.model_error(format!("accessor kind {} does not fit the match tree {:?}", k, other));
            }
        }
        if rep.samples.len() < 3 && o.kind == "seq" && o.skipped.iter().any(|x| !x.is_empty()) {
            rep.sample(case.sample(&format!("get_matched {:?} skipped {:?}", o.get_matched, o.skipped), J::s("as in the reference machine's match tree")));
        }
    }
}

// ---------------------------------------------------------------------------------------------
// C18: results are deterministic values, stable under clone / eq / hash

/// Digest of the complete observation of one call (all entry points), used by the history exploration.
pub fn op_digest(e: &GrammarEntry, ri: usize, input: &str) -> String {
    let req = Req {
        s: input,
        a: 0,
        b: input.len(),
        form: Form::Str,
        init: &[],
        what: what::PP | what::PF | what::CP | what::CF | what::ERRTEXT | what::DEBUG | what::EQH,
    };
    match typed(e, ri, &req) {
        Ok(mut o) => {
            // Span hashes are identity based (they include the address of the input string), so the
            // hash *value* legitimately differs between processes; the eq/hash *facts* stay in
            if let Some(q) = o.eqh.as_mut() {
                q.hash = 0;
            }
            let mut h: u64 = 0xcbf29ce484222325;
            fnv(&mut h, &format!("{:?}", o));
            format!("{:016x}", h)
        }
        Err(_) => "panic".to_string(),
    }
}

/// C18, histories: all call sequences of length <= 3 over a small operation alphabet drawn from this
/// grammar and its neighbour in the shard; the observation of the last call must equal the observation
/// of the same call made first in a fresh process image.
fn c18_histories(ctx: &Ctx, gi: usize, rep: &mut Report, note: &dyn Fn(&str)) {
    let mut ops: Vec<(usize, usize, String)> = vec![];
    let gj = (gi + 1) % ctx.entries.len();
    for (g_idx, take) in [(gi, 3usize), (gj, 2usize)] {
        let e = &ctx.entries[g_idx];
        let g = &ctx.grammars[g_idx];
        let inputs = inputs_for(ctx, e, 0);
        let mut taken = 0;
        for (ri, r) in e.rules.iter().enumerate() {
            if !r.entry || taken >= take {
                continue;
            }
            // the longest accepted input and the longest rejected one
            let mut acc: Option<&String> = None;
            let mut rej: Option<&String> = None;
            for inp in inputs.iter().take(4000) {
                if ill_founded(g, ri, inp) {
                    continue;
                }
                let r = m::run(g, ri, inp, "", &[], true, Atom::NonAtomic);
                if r.full_ok == Some(true) {
                    acc = Some(inp);
                } else if r.ok.is_none() {
                    rej = Some(inp);
                }
            }
            for x in [acc, rej].into_iter().flatten() {
                ops.push((g_idx, ri, x.clone()));
            }
            taken += 1;
        }
    }
    ops.truncate(8);
    if ops.len() < 2 {
        return;
    }
    let exe = match std::env::current_exe() {
        Ok(p) => p,
        Err(_) => return,
    };
    let mut baseline = vec![];
    for (g_idx, ri, inp) in &ops {
        let out = std::process::Command::new(&exe)
            .args(["--c18-op", &g_idx.to_string(), &ri.to_string(), &enumerate::escape(inp)])
            .output();
        match out {
            Ok(o) if o.status.success() => baseline.push(String::from_utf8_lossy(&o.stdout).trim().to_string()),
            _ => {
                rep.model_error("C18: could not obtain a fresh-process baseline".to_string());
                return;
            }
        }
    }
    let n = ops.len();
    let run = |k: usize| op_digest(&ctx.entries[ops[k].0], ops[k].1, &ops[k].2);
    let mut check = |hist: &[usize], rep: &mut Report| {
        note(&format!("history {:?} in {}", hist, ctx.entries[gi].id));
        for &k in &hist[..hist.len() - 1] {
            let _ = run(k);
        }
        let last = *hist.last().unwrap();
        let d = run(last);
        rep.cases += 1;
        if hist.len() > 1 {
            rep.nontrivial += 1;
        }
        rep.cell(&format!("history-length-{}", hist.len()));
        if d != baseline[last] {
            let (g_idx, ri, inp) = &ops[last];
            let case = Case {
                ctx,
                gi: *g_idx,
                ri: *ri,
                input: inp,
                form: Form::Str,
                a: 0,
                b: inp.len(),
                init: &[],
            };
            let desc: Vec<String> = hist.iter().map(|k| format!("{}:{}:{:?}", ctx.entries[ops[*k].0].id, ctx.entries[ops[*k].0].rules[ops[*k].1].name, ops[*k].2)).collect();
            rep.violation(case.violation(
                "result-depends-on-earlier-calls",
                format!("observation digest {} (first call in a fresh process)", baseline[last]),
                format!("digest {} after the history", d),
                format!("history: {}", desc.join(" ; ")),
            ));
        }
    };
    for a in 0..n {
        check(&[a], rep);
        for b in 0..n {
            check(&[a, b], rep);
            for c in 0..n {
                check(&[a, b, c], rep);
            }
        }
    }
    rep.impl_validated += (n + n * n + n * n * n) as u64;
}

fn c18(ctx: &Ctx, gi: usize, ri: usize, rep: &mut Report, note: &dyn Fn(&str)) {
    let e = &ctx.entries[gi];
    let g = &ctx.grammars[gi];
    let first_entry = e.rules.iter().position(|r| r.entry).unwrap_or(0);
    if ri == first_entry && ctx.opts.only_input.is_none() {
        c18_histories(ctx, gi, rep, note);
    }
    let inputs = inputs_for(ctx, e, 0);
    let cmp = e.rules[ri].compare;
    let max = ctx.len_for(e);
    for input in &inputs {
        let case = Case {
            ctx,
            gi,
            ri,
            input,
            form: Form::Str,
            a: 0,
            b: input.len(),
            init: &[],
        };
        note(&case.id());
        if ill_founded(g, ri, input) {
            rep.ill_founded += 1;
            continue;
        }
        rep.cases += 1;
        let o = match typed(e, ri, &case.req(what::EQH | what::PP | what::DEBUG)) {
            Ok(o) => o,
            Err(p) => {
                rep.violation(case.violation("typed-panic", "a value".into(), format!("panic: {}", p), String::new()));
                continue;
            }
        };
        // the same call again gives the same observation (no state kept between calls)
        match typed(e, ri, &case.req(what::EQH | what::PP | what::DEBUG)) {
            Ok(o2) if o2 == o => rep.determinism_checked += 1,
            _ => rep.violation(case.violation("observation-differs-on-second-call", "identical".into(), "different".into(), String::new())),
        }
        rep.impl_validated += 1;
        if let Some(q) = &o.eqh {
            rep.nontrivial += 1;
            rep.outcome(format!("{}", q.hash % 97));
            let mut bad = vec![];
            if !q.twice_eq {
                bad.push("parsing twice gives unequal trees");
            }
            if !q.twice_hash_eq {
                bad.push("parsing twice gives different hashes");
            }
            if !q.twice_debug_eq {
                bad.push("parsing twice gives different Debug renderings");
            }
            if !q.clone_eq {
                bad.push("clone != original");
            }
            if !q.clone_hash_eq {
                bad.push("clone hashes differently");
            }
            if !bad.is_empty() {
                rep.violation(case.violation("eq-hash-clone", "equal, equal hashes".into(), bad.join("; "), String::new()));
            }
        }
        // pairs of (sub-)inputs of one string object
        if let (Some(cmp), true) = (cmp, e.all_forms && (input.len() + 1 <= max || ctx.opts.only_input.is_some())) {
            let mut forms = forms_of(e, input, true);
            // slices of the string passed as `&str` of their own: different input objects over the same memory
            let bs = enumerate::boundaries(input);
            for (i, &a) in bs.iter().enumerate() {
                for &b in &bs[i..] {
                    if (a, b) != (0, input.len()) {
                        forms.push((Form::Slice, a, b));
                    }
                }
            }
            for (i, f1) in forms.iter().enumerate() {
                for f2 in &forms[i..] {
                    if f1.0 == Form::Slice && f2.0 == Form::Slice && f1 != f2 {
                        continue; // two different slice objects: covered through their pairing with the sub-inputs
                    }
                    rep.cases += 1;
                    let r = std::panic::catch_unwind(|| cmp(input, *f1, *f2));
                    match r {
                        Ok(Some((eq, heq, deq))) => {
                            rep.impl_validated += 1;
                            if f1 != f2 {
                                rep.nontrivial += 1;
                            }
                            let cross = (f1.0 == Form::Slice) != (f2.0 == Form::Slice);
                            rep.cell(if cross {
                                if eq { "cross-object-pair-equal" } else { "cross-object-pair-unequal" }
                            } else if eq {
                                "pair-equal"
                            } else {
                                "pair-unequal"
                            });
                            // same input object: == exactly when structurally identical (same Debug), then equal hashes;
                            // different input objects: == only if structurally identical
                            let bad = if cross { eq && !(deq && heq) } else { eq != deq || (eq && !heq) };
                            if bad {
                                let c2 = Case {
                                    ctx,
                                    gi,
                                    ri,
                                    input,
                                    form: f1.0,
                                    a: f1.1,
                                    b: f1.2,
                                    init: &[],
                                };
                                rep.violation(c2.violation(
                                    "eq-not-structural",
                                    format!("== exactly when the Debug renderings are identical (then equal hashes); Debug equal: {}", deq),
                                    format!("== {} ; hashes equal: {}", eq, heq),
                                    format!("second operand {:?}[{}..{}]", f2.0, f2.1, f2.2),
                                ));
                            }
                        }
                        Ok(None) => {}
                        Err(_) => rep.violation(case.violation("typed-panic", "a comparison".into(), "panic".into(), String::new())),
                    }
                }
            }
        }
        if rep.samples.len() < 2 {
            if let (Some(q), Some(pp)) = (&o.eqh, &o.pp) {
                if pp.end > 1 {
                    rep.sample(case.sample(&format!("hash {:016x}", q.hash), J::s("parse twice: equal, equal hash, equal Debug; clone equal")));
                }
            }
        }
    }
}

// ---------------------------------------------------------------------------------------------
// C20 (E1 half): the same grammar under every option set accepts the same inputs, consumes the same
// offsets and yields the same pair tree (compared with pest / M, as the default variant is by C01/C02).

/// The rule (or a rule it reaches) uses `+` or a counted repetition in its source text.
fn uses_plus_or_counted(g: &Grammar, e: &GrammarEntry, ri: usize) -> bool {
    fn walk(g: &Grammar, n: &Node, seen: &mut BTreeSet<usize>) {
        match &n.ex {
            Ex::Ident(_, Target::Rule(i)) => {
                if seen.insert(*i) {
                    walk(g, &g.rules[*i].body, seen);
                }
            }
            Ex::PosPred(x) | Ex::NegPred(x) | Ex::Opt(x) | Ex::Rep(x) | Ex::RepOnce(x) | Ex::Push(x) | Ex::Restore(x) => walk(g, x, seen),
            Ex::Seq(v) | Ex::Choice(v) => {
                for x in v {
                    walk(g, x, seen)
                }
            }
            _ => {}
        }
    }
    let mut seen = BTreeSet::new();
    seen.insert(ri);
    walk(g, &g.rules[ri].body, &mut seen);
    seen.iter().any(|i| {
        let def = rule_def(e, &g.rules[*i].name);
        let body = def.splitn(2, '=').nth(1).unwrap_or("");
        // strip the braces of the rule itself
        let inner = body.trim().trim_start_matches(|c| "_@$!".contains(c)).trim();
        let inner = inner.strip_prefix('{').and_then(|x| x.strip_suffix('}')).unwrap_or(inner);
        inner.contains('+') || inner.contains('{')
    })
}

fn c20(ctx: &Ctx, gi: usize, ri: usize, rep: &mut Report, note: &dyn Fn(&str)) {
    let e = &ctx.entries[gi];
    let g = &ctx.grammars[gi];
    let inputs = inputs_for(ctx, e, 0);
    // With `pest_optimizer = false` the generator translates the unoptimized AST.  Where that differs from the
    // default configuration, the only deviation recorded as a known finding is "behaves exactly like the
    // reference machine run on the unoptimized expression" (`e+` and counted repetitions as single nodes).
    let graw = if e.options.contains("pest_optimizer = false") {
        match Grammar::load_raw(e.src) {
            Ok(x) => Some(x),
            Err(err) => {
                rep.model_error(format!("unoptimized grammar does not load: {}", err));
                None
            }
        }
    } else {
        None
    };
    let _ = uses_plus_or_counted;
    for input in &inputs {
        let case = Case {
            ctx,
            gi,
            ri,
            input,
            form: Form::Str,
            a: 0,
            b: input.len(),
            init: &[],
        };
        note(&case.id());
        let b = base::base(g, e, ri, input, &[], Atom::NonAtomic, rep);
        if b.ill_founded {
            rep.ill_founded += 1;
            continue;
        }
        rep.cases += 1;
        let o = match typed(e, ri, &case.req(what::PP | what::PF)) {
            Ok(o) => o,
            Err(p) => {
                rep.violation(case.violation("typed-panic", exp_str(&b), format!("panic: {}", p), String::new()));
                continue;
            }
        };
        rep.impl_validated += 1;
        if !e.options.is_empty() && e.options != "no_warnings = false" {
            rep.nontrivial += 1;
        }
        rep.cell(&format!("options:{}", e.options));
        rep.outcome(format!("{}:{}", b.exp_ok, b.exp_end));
        let pp = o.pp.as_ref().unwrap();
        let pf = o.pf.as_ref().unwrap();
        let exp_tree = pruned(g, &b.exp_toks);
        let full = b.m.full_ok.unwrap_or(false);
        let rec_bad = pp.ok != b.exp_ok || (pp.ok && pp.end != b.exp_end);
        let tree_bad = !rec_bad && pp.ok && exp_tree != pp.toks;
        let full_bad = !rec_bad && pf.ok != full && pp.ok == b.m.ok.is_some();
        if !(rec_bad || tree_bad || full_bad) {
            if rep.samples.len() < 2 && pp.ok && pp.end > 1 && e.options.contains("box_only") {
                rep.sample(case.sample(&call_str(&o.pp), J::s(&format!("options [{}]: same as pest / default", e.options))));
            }
            continue;
        }
        // does the deviation coincide with the unoptimized-expression semantics?
        let mut as_raw = false;
        if let Some(gr) = &graw {
            let r = m::run(gr, ri, input, "", &[], true, Atom::NonAtomic);
            if !(r.diverged || r.nonprogress) {
                let r_ok = r.ok.is_some();
                let r_end = r.ok.as_ref().map(|x| x.0).unwrap_or(0);
                let r_toks = pruned(gr, &base::m_toks_of(&r));
                as_raw = pp.ok == r_ok && (!r_ok || (pp.end == r_end && pp.toks == r_toks)) && pf.ok == r.full_ok.unwrap_or(false);
            }
        }
        let suffix = if as_raw { "-pest_optimizer-false-behaves-as-the-unoptimized-expression" } else { "" };
        if rec_bad {
            rep.violation(case.violation(&format!("option-changes-recognition{}", suffix), exp_str(&b), call_str(&o.pp), format!("options: {}", e.options)));
        } else if tree_bad {
            rep.violation(case.violation(&format!("option-changes-tree{}", suffix), show_toks(g, &exp_tree), show_toks(g, &pp.toks), format!("options: {}", e.options)));
        } else {
            rep.violation(case.violation(&format!("option-changes-full-parse{}", suffix), format!("full={}", full), format!("try_parse ok={}", pf.ok), format!("options: {}", e.options)));
        }
    }
}

//! gramgen: enumerates the grammar families (DESIGN.md section 4), validates every member with
//! pest's own validator, and writes the shard crates under `generated/` (one module per grammar:
//! `pest_typed_derive` parser, `pest_derive` parser with wrapper rules, rule table).
//!
//! Files are only rewritten when their content changes, so cargo's fingerprints stay meaningful.

mod families;
mod write;

use std::collections::BTreeMap;

#[derive(Clone, Debug)]
pub struct RuleSpec {
    pub name: String,
    /// N normal, S silent, A atomic, C compound, X non-atomic
    pub kind: char,
    pub body: String,
    /// explored as an entry point
    pub entry: bool,
}

impl RuleSpec {
    pub fn new(name: &str, kind: char, body: &str) -> Self {
        RuleSpec {
            name: name.to_string(),
            kind,
            body: body.to_string(),
            entry: true,
        }
    }
    pub fn helper(name: &str, kind: char, body: &str) -> Self {
        RuleSpec {
            name: name.to_string(),
            kind,
            body: body.to_string(),
            entry: false,
        }
    }
    pub fn line(&self) -> String {
        let sig = match self.kind {
            'N' => "",
            'S' => "_",
            'A' => "@",
            'C' => "$",
            'X' => "!",
            _ => panic!("kind"),
        };
        format!("{} = {}{{ {} }}", self.name, sig, self.body)
    }
}

#[derive(Clone, Debug, Default)]
pub struct GSpec {
    pub id: String,
    pub family: String,
    /// belongs to the quick corpus (thorough = quick + the rest)
    pub quick: bool,
    pub rules: Vec<RuleSpec>,
    pub alphabet: String,
    pub max_len: usize,
    pub max_len_thorough: usize,
    pub init_alphabet: Vec<String>,
    pub init_depth: usize,
    pub all_forms: bool,
    pub atom0: bool,
    pub tree: bool,
    pub getters: bool,
    pub compare: bool,
    /// attribute lines for the typed derive (C20); empty = defaults (+ emit_rule_reference when getters)
    pub options: Vec<String>,
    pub base_id: String,
    /// explicit input list instead of all strings over the alphabet
    pub inputs: Option<Vec<String>>,
    /// generate accessor observations (C17) for rules named c*/s*/r*
    pub acc: bool,
    /// build this grammar in the subject's `grammar-extras` configuration
    pub extras: bool,
    /// the rule bodies carry node tags (`#t = e`, grammar-extras only): gramgen itself (built without that
    /// feature) parses the text with the tags removed - they do not change what is matched
    pub tagged: bool,
    /// do not derive the pest parser (C20 variants share the base grammar's pest parser results via the base entry)
    pub no_pest: bool,
}

impl GSpec {
    pub fn src(&self) -> String {
        let mut s = String::new();
        for r in &self.rules {
            s.push_str(&r.line());
            s.push('\n');
        }
        s
    }
    /// The text gramgen itself can parse: node tags removed when `tagged`.
    pub fn src_plain(&self) -> String {
        let src = self.src();
        if !self.tagged {
            return src;
        }
        let cs: Vec<char> = src.chars().collect();
        let mut out = String::new();
        let mut i = 0;
        while i < cs.len() {
            if cs[i] == '#' {
                let mut j = i + 1;
                while j < cs.len() && (cs[j].is_alphanumeric() || cs[j] == '_') {
                    j += 1;
                }
                let mut k = j;
                while k < cs.len() && cs[k] == ' ' {
                    k += 1;
                }
                if j > i + 1 && k < cs.len() && cs[k] == '=' {
                    k += 1;
                    while k < cs.len() && cs[k] == ' ' {
                        k += 1;
                    }
                    i = k;
                    continue;
                }
            }
            out.push(cs[i]);
            i += 1;
        }
        out
    }
    pub fn entry_rules(&self) -> usize {
        self.rules.iter().filter(|r| r.entry).count()
    }
}

fn main() {
    let args: Vec<String> = std::env::args().collect();
    let out_dir = args.get(1).cloned().unwrap_or_else(|| "generated".to_string());
    let mut specs: Vec<GSpec> = vec![];
    families::all(&mut specs);
    // validate every grammar with pest (a family must only emit pest-valid grammars)
    let mut bad = 0;
    for s in &specs {
        if let Err(e) = refpeg::grammar::Grammar::load(&s.src_plain()) {
            eprintln!("gramgen: grammar {} rejected by pest_meta:\n{}\n{}", s.id, s.src(), e);
            bad += 1;
        }
    }
    if bad > 0 {
        eprintln!("gramgen: {} invalid grammars", bad);
        std::process::exit(2);
    }
    let mut by_family: BTreeMap<String, Vec<GSpec>> = BTreeMap::new();
    for s in specs {
        by_family.entry(s.family.clone()).or_default().push(s);
    }
    write::write_all(&out_dir, &by_family);
}

//! Grammar families (DESIGN.md section 4).  Every family is enumerated completely up to its
//! structural bound and ordered simplest-first; members that pest's validator rejects are dropped
//! here (they feed the negative corpus of C11 in `genrun`).

use crate::{GSpec, RuleSpec};

fn valid(rules: &[RuleSpec]) -> bool {
    let mut s = String::new();
    for r in rules {
        s.push_str(&r.line());
        s.push('\n');
    }
    pest_meta::parse_and_optimize(&s).is_ok()
}

fn valid_body(kind: char, body: &str, ctx: &[RuleSpec]) -> bool {
    let mut v = ctx.to_vec();
    v.push(RuleSpec::new("cand__", kind, body));
    valid(&v)
}

pub const UNARY: &[&str] = &["?", "*", "+", "{2}", "{1,2}", "{,2}", "{2,}", "&", "!", "PUSH"];

pub fn un(op: &str, e: &str) -> String {
    match op {
        "&" | "!" => format!("{}({})", op, e),
        "PUSH" => format!("PUSH({})", e),
        _ => format!("({}){}", e, op),
    }
}

pub fn bin(op: &str, l: &str, r: &str) -> String {
    format!("({}) {} ({})", l, op, r)
}

fn depth1(ts: &[String]) -> Vec<String> {
    let mut v = vec![];
    for op in UNARY {
        for t in ts {
            v.push(un(op, t));
        }
    }
    for op in ["~", "|"] {
        for l in ts {
            for r in ts {
                v.push(bin(op, l, r));
            }
        }
    }
    v
}

fn strs(v: &[&str]) -> Vec<String> {
    v.iter().map(|s| s.to_string()).collect()
}

struct SkipCfg {
    name: &'static str,
    rules: Vec<RuleSpec>,
    alphabet: &'static str,
    len_q: usize,
    len_t: usize,
}

fn skip_cfgs() -> Vec<SkipCfg> {
    vec![
        SkipCfg {
            name: "none",
            rules: vec![],
            alphabet: "abAx",
            len_q: 5,
            len_t: 6,
        },
        SkipCfg {
            name: "ws",
            rules: vec![RuleSpec::helper("WHITESPACE", 'S', "\" \"")],
            alphabet: "abA ",
            len_q: 5,
            len_t: 6,
        },
        SkipCfg {
            name: "wc",
            rules: vec![
                RuleSpec::helper("WHITESPACE", 'S', "\" \""),
                RuleSpec::helper("COMMENT", 'N', "\"<\" ~ (!\">\" ~ ANY)* ~ \">\""),
            ],
            alphabet: "ab <>",
            len_q: 5,
            len_t: 6,
        },
    ]
}

/// F-expr: systematic expressions.
fn expr(out: &mut Vec<GSpec>) {
    let t1 = strs(&["\"a\"", "\"b\"", "\"ab\"", "^\"a\"", "'a'..'b'", "ANY"]);
    let t2 = strs(&["\"a\"", "\"b\""]);
    let mut d1: Vec<String> = t1.clone();
    d1.extend(depth1(&t1));
    let d1_2 = depth1(&t2);
    let mut le1_2 = t2.clone();
    le1_2.extend(d1_2.clone());
    let mut d2: Vec<String> = vec![];
    for op in UNARY {
        for e in &d1_2 {
            d2.push(un(op, e));
        }
    }
    for op in ["~", "|"] {
        for (li, l) in le1_2.iter().enumerate() {
            for (ri, r) in le1_2.iter().enumerate() {
                if li >= t2.len() || ri >= t2.len() {
                    d2.push(bin(op, l, r));
                }
            }
        }
    }
    for cfg in skip_cfgs() {
        let twins = cfg.name != "wc";
        let ok1: Vec<&String> = d1.iter().filter(|e| valid_body('N', e, &cfg.rules)).collect();
        let ok2: Vec<&String> = d2.iter().filter(|e| valid_body('N', e, &cfg.rules)).collect();
        eprintln!("gramgen: expr/{}: depth<=1 {} of {}, depth 2 {} of {}", cfg.name, ok1.len(), d1.len(), ok2.len(), d2.len());
        // quick slice of depth 2: every k-th member, 150 of them
        let step = (ok2.len() / 150).max(1);
        let mut quick_list: Vec<&String> = ok1.clone();
        let mut rest: Vec<&String> = vec![];
        if cfg.name != "wc" {
            for (i, e) in ok2.iter().enumerate() {
                if i % step == 0 && quick_list.len() < ok1.len() + 150 {
                    quick_list.push(e);
                } else {
                    rest.push(e);
                }
            }
        } else {
            rest = ok2.clone();
        }
        let per = 80;
        for (quick, list) in [(true, quick_list), (false, rest)] {
            for (ci, chunk) in list.chunks(per).enumerate() {
                let mut rules = cfg.rules.clone();
                for (k, e) in chunk.iter().enumerate() {
                    rules.push(RuleSpec::new(&format!("e{}", k), 'N', e));
                    if twins {
                        rules.push(RuleSpec::new(&format!("a{}", k), 'A', e));
                    }
                }
                out.push(GSpec {
                    id: format!("expr_{}_{}{}", cfg.name, if quick { "q" } else { "t" }, ci),
                    family: "expr".into(),
                    quick,
                    rules,
                    alphabet: cfg.alphabet.into(),
                    max_len: cfg.len_q,
                    max_len_thorough: cfg.len_t,
                    ..Default::default()
                });
            }
        }
    }
}

/// F-plus: `e+` and counted repetitions nested in other operators.  With the default configuration pest's
/// optimizer unrolls them; in the `grammar-extras` configuration (`e+` stays one node) and with
/// `pest_optimizer = false` (counted repetitions stay one node too) they reach RepeatMin / RepeatMinMax with
/// MIN >= 1.  Each expression as a normal rule and as its atomic twin (check path).
fn plus(out: &mut Vec<GSpec>) {
    let t2 = strs(&["\"a\"", "\"b\""]);
    let mut reps: Vec<String> = vec![];
    for op in ["+", "{2}", "{1,2}", "{,2}", "{2,}"] {
        for t in &t2 {
            reps.push(un(op, t));
        }
    }
    let mut exprs: Vec<String> = vec![];
    for op in UNARY {
        for r in &reps {
            exprs.push(un(op, r));
        }
    }
    let others = strs(&["\"a\"", "\"b\"", "(\"b\")?"]);
    for op in ["~", "|"] {
        for r in &reps {
            for t in &others {
                exprs.push(bin(op, r, t));
                exprs.push(bin(op, t, r));
            }
        }
    }
    // depth 3: a repetition around a sequence that starts with `e+` / a counted repetition
    for op2 in ["*", "+", "?", "{,2}", "{2,}"] {
        for r in &reps {
            exprs.push(un(op2, &bin("~", r, "(\"b\")?")));
            exprs.push(un(op2, &bin("|", r, "\"b\"")));
        }
    }
    for cfg in skip_cfgs() {
        if cfg.name == "wc" {
            continue;
        }
        let ok: Vec<&String> = exprs.iter().filter(|e| valid_body('N', e, &cfg.rules)).collect();
        eprintln!("gramgen: plus/{}: {} of {}", cfg.name, ok.len(), exprs.len());
        // quick: every third expression (all shapes are regular in op x rep x operand)
        let quick_list: Vec<&String> = ok.iter().enumerate().filter(|(i, _)| i % 3 == 0).map(|(_, e)| *e).collect();
        let rest: Vec<&String> = ok.iter().enumerate().filter(|(i, _)| i % 3 != 0).map(|(_, e)| *e).collect();
        for (quick, list) in [(true, quick_list), (false, rest)] {
            for (ci, chunk) in list.chunks(60).enumerate() {
                let mut rules = cfg.rules.clone();
                for (k, e) in chunk.iter().enumerate() {
                    rules.push(RuleSpec::new(&format!("e{}", k), 'N', e));
                    rules.push(RuleSpec::new(&format!("a{}", k), 'A', e));
                }
                let id = format!("plus_{}_{}{}", cfg.name, if quick { "q" } else { "t" }, ci);
                for (suffix, options) in [("", vec![]), ("_raw", vec!["pest_optimizer = false".to_string()])] {
                    out.push(GSpec {
                        id: format!("{}{}", id, suffix),
                        family: "plus".into(),
                        quick,
                        rules: rules.clone(),
                        alphabet: cfg.alphabet.into(),
                        max_len: 5,
                        max_len_thorough: 6,
                        options,
                        ..Default::default()
                    });
                }
            }
        }
    }
}

/// Extras at depth <= 1: special terminals, stack built-ins, references to rules of each kind.
fn exprx(out: &mut Vec<GSpec>) {
    let helpers = vec![
        RuleSpec::helper("rn", 'N', "\"a\" ~ \"b\""),
        RuleSpec::helper("rs", 'S', "\"a\" ~ \"b\""),
        RuleSpec::helper("ra", 'A', "\"a\" ~ \"b\""),
        RuleSpec::helper("rc", 'C', "\"a\" ~ \"b\""),
        RuleSpec::helper("rx", 'X', "\"a\" ~ \"b\""),
    ];
    let specials = strs(&[
        "\"\"",
        "SOI",
        "EOI",
        "ASCII_DIGIT",
        "ASCII_NONZERO_DIGIT",
        "ASCII_BIN_DIGIT",
        "ASCII_OCT_DIGIT",
        "ASCII_ALPHA_LOWER",
        "ASCII_ALPHA_UPPER",
        "ASCII_ALPHA",
        "ASCII_HEX_DIGIT",
        "ASCII_ALPHANUMERIC",
        "ASCII",
        "PEEK",
        "POP",
        "DROP",
        "PEEK_ALL",
        "POP_ALL",
        "PEEK[0..1]",
        "PEEK[-1..]",
        "PEEK[..]",
        "PEEK[1..]",
        "rn",
        "rs",
        "ra",
        "rc",
        "rx",
    ]);
    let mut forms: Vec<String> = vec![];
    for s in &specials {
        forms.push(s.clone());
        for op in UNARY {
            forms.push(un(op, s));
        }
        forms.push(format!("\"a\" ~ {}", s));
        forms.push(format!("{} ~ \"a\"", s));
        forms.push(format!("{} | \"a\"", s));
        forms.push(format!("\"a\" | {}", s));
        forms.push(format!("PUSH(\"a\") ~ {}", s));
        forms.push(format!("PUSH('a'..'b') ~ {} ~ {}", s, s));
        forms.push(format!("PUSH(\"a\") ~ PUSH(\"b\") ~ {}", s));
        forms.push(format!("PUSH(\"a\")? ~ {}", s));
    }
    for (cname, skip, alphabet) in [
        ("none", vec![], "ab1A"),
        ("ws", vec![RuleSpec::helper("WHITESPACE", 'S', "\" \"")], "ab1 "),
    ] {
        let mut ctx = helpers.clone();
        ctx.extend(skip.clone());
        let ok: Vec<&String> = forms.iter().filter(|e| valid_body('N', e, &ctx)).collect();
        eprintln!("gramgen: exprx/{}: {} of {}", cname, ok.len(), forms.len());
        for (ci, chunk) in ok.chunks(90).enumerate() {
            let mut rules = ctx.clone();
            for (k, e) in chunk.iter().enumerate() {
                rules.push(RuleSpec::new(&format!("e{}", k), 'N', e));
                rules.push(RuleSpec::new(&format!("a{}", k), 'A', e));
            }
            out.push(GSpec {
                id: format!("exprx_{}_{}", cname, ci),
                family: "exprx".into(),
                quick: true,
                rules,
                alphabet: alphabet.into(),
                max_len: 5,
                max_len_thorough: 6,
                ..Default::default()
            });
        }
    }
    // NEWLINE
    let mut nl = vec![];
    for f in ["NEWLINE", "NEWLINE*", "NEWLINE ~ \"a\"", "\"a\" ~ NEWLINE", "(!NEWLINE ~ ANY)*", "NEWLINE | \"a\"", "(\"a\" | NEWLINE)+", "&NEWLINE ~ ANY", "NEWLINE{2}"] {
        nl.push(f.to_string());
    }
    let mut rules = vec![];
    for (k, e) in nl.iter().enumerate() {
        rules.push(RuleSpec::new(&format!("e{}", k), 'N', e));
        rules.push(RuleSpec::new(&format!("a{}", k), 'A', e));
    }
    assert!(valid(&rules));
    out.push(GSpec {
        id: "exprx_nl".into(),
        family: "exprx".into(),
        quick: true,
        rules,
        alphabet: "a\n\r".into(),
        max_len: 5,
        max_len_thorough: 7,
        ..Default::default()
    });
}

/// F-kind: every nesting (depth 3) of the five rule kinds around sequences and repetitions.
fn kind(out: &mut Vec<GSpec>) {
    let bodies = [
        "\"a\" ~ \"b\"",
        "\"a\"*",
        "\"a\"+",
        "\"a\" ~ \"b\"*",
        "(\"a\" ~ \"b\")*",
        "\"a\"? ~ \"b\"",
        // explicit references to the skip rules
        "\"a\" ~ WHITESPACE ~ \"b\"",
        "\"a\" ~ COMMENT* ~ \"b\"",
    ];
    let kinds = ['N', 'S', 'A', 'C', 'X'];
    struct Cfg {
        name: String,
        skip: Vec<RuleSpec>,
        quick_bodies: Vec<usize>,
        thorough_bodies: Vec<usize>,
    }
    let mut cfgs = vec![
        Cfg {
            name: "ws".into(),
            skip: vec![RuleSpec::helper("WHITESPACE", 'N', "\" \"")],
            quick_bodies: vec![0, 4],
            thorough_bodies: vec![1, 2, 3, 5],
        },
        Cfg {
            name: "both".into(),
            skip: vec![RuleSpec::helper("WHITESPACE", 'S', "\" \""), RuleSpec::helper("COMMENT", 'N', "\"#\"")],
            quick_bodies: vec![3],
            thorough_bodies: vec![0, 1, 2, 4, 5],
        },
        Cfg {
            name: "cm".into(),
            skip: vec![RuleSpec::helper("COMMENT", 'S', "\"#\"")],
            quick_bodies: vec![],
            thorough_bodies: vec![0, 1, 2, 3, 4, 5],
        },
        Cfg {
            name: "none".into(),
            skip: vec![],
            quick_bodies: vec![],
            thorough_bodies: vec![0, 3, 4],
        },
    ];
    // WHITESPACE / COMMENT declared with each kind, with a body whose atomic matching matters
    for k in kinds {
        cfgs.push(Cfg {
            name: format!("wsk{}", k),
            skip: vec![RuleSpec::helper("WHITESPACE", k, "\"#\" ~ \" \"")],
            quick_bodies: if k == 'C' || k == 'X' || k == 'N' { vec![0] } else { vec![] },
            thorough_bodies: if k == 'C' || k == 'X' || k == 'N' { vec![4] } else { vec![0, 4] },
        });
        cfgs.push(Cfg {
            name: format!("cmk{}", k),
            skip: vec![RuleSpec::helper("WHITESPACE", 'S', "\" \""), RuleSpec::helper("COMMENT", k, "\"#\" ~ \"#\"")],
            quick_bodies: if k == 'X' || k == 'N' { vec![0] } else { vec![] },
            thorough_bodies: if k == 'X' || k == 'N' { vec![4] } else { vec![0] },
        });
        // a skip rule whose body starts with something that matches without consuming input: if it were not
        // matched atomically, the implicit skip inside it would re-enter it at the same position
        cfgs.push(Cfg {
            name: format!("cmp{}", k),
            skip: vec![RuleSpec::helper("COMMENT", k, "!\"#b\" ~ \"#\" ~ \"a\"?")],
            quick_bodies: if k == 'X' || k == 'S' { vec![0] } else { vec![] },
            thorough_bodies: if k == 'X' || k == 'S' { vec![] } else { vec![0] },
        });
    }
    // the same for a grammar that defines only WHITESPACE (its own branch of the skip-type selection)
    for k in ['S', 'N'] {
        cfgs.push(Cfg {
            name: format!("wsp{}", k),
            skip: vec![RuleSpec::helper("WHITESPACE", k, "!\"#b\" ~ \"#\" ~ \"a\"?")],
            quick_bodies: vec![0],
            thorough_bodies: vec![],
        });
    }
    // explicit references to WHITESPACE / COMMENT from rules of every kind
    cfgs.push(Cfg {
        name: "wsref".into(),
        skip: vec![RuleSpec::helper("WHITESPACE", 'S', "\"#\" ~ \" \"")],
        quick_bodies: vec![6],
        thorough_bodies: vec![],
    });
    cfgs.push(Cfg {
        name: "cmref".into(),
        skip: vec![RuleSpec::helper("WHITESPACE", 'S', "\" \""), RuleSpec::helper("COMMENT", 'N', "\"#\" ~ \"b\"")],
        quick_bodies: vec![7],
        thorough_bodies: vec![],
    });
    // COMMENT only / WHITESPACE only, declared normal or silent, with a body whose atomic matching matters
    for k in ['N', 'S', 'A', 'C', 'X'] {
        cfgs.push(Cfg {
            name: format!("cmo{}", k),
            skip: vec![RuleSpec::helper("COMMENT", k, "\"#\" ~ \"b\"")],
            quick_bodies: if k == 'N' || k == 'S' { vec![0] } else { vec![] },
            thorough_bodies: if k == 'N' || k == 'S' { vec![4] } else { vec![0] },
        });
        cfgs.push(Cfg {
            name: format!("wso{}", k),
            skip: vec![RuleSpec::helper("WHITESPACE", k, "\" \" ~ \"b\"*")],
            quick_bodies: if k == 'N' { vec![0] } else { vec![] },
            thorough_bodies: if k == 'N' { vec![3] } else { vec![0] },
        });
    }
    for cfg in cfgs {
        for (quick, bl) in [(true, &cfg.quick_bodies), (false, &cfg.thorough_bodies)] {
            for &b in bl.iter() {
                let mut rules = cfg.skip.clone();
                for k3 in kinds {
                    rules.push(RuleSpec::new(&format!("i{}", k3), k3, bodies[b]));
                }
                for k2 in kinds {
                    for k3 in kinds {
                        rules.push(RuleSpec::new(&format!("m{}{}", k2, k3), k2, &format!("i{} ~ i{}", k3, k3)));
                    }
                }
                for k1 in kinds {
                    for k2 in kinds {
                        for k3 in kinds {
                            rules.push(RuleSpec::new(&format!("t{}{}{}", k1, k2, k3), k1, &format!("m{}{}", k2, k3)));
                        }
                    }
                }
                // the skip rules themselves are entry points too (C04: kind-dependent trailing skip)
                for r in rules.iter_mut() {
                    if r.name == "WHITESPACE" || r.name == "COMMENT" {
                        r.entry = true;
                    }
                }
                if !valid(&rules) {
                    eprintln!("gramgen: kind/{} body {} invalid, dropped", cfg.name, b);
                    continue;
                }
                out.push(GSpec {
                    id: format!("kind_{}_b{}", cfg.name, b),
                    family: "kind".into(),
                    quick,
                    rules,
                    alphabet: "ab #".into(),
                    max_len: 6,
                    max_len_thorough: 7,
                    atom0: true,
                    ..Default::default()
                });
            }
        }
    }
}

/// F-stack: stack operations inside choices, optionals, repetitions and predicates.
fn stack(out: &mut Vec<GSpec>) {
    let ops_q = ["PUSH(\"a\")", "POP", "DROP", "PUSH(\"a\") ~ POP", "DROP ~ PUSH(\"b\")"];
    let ops_t = ["PUSH(\"b\" | \"\")", "POP_ALL", "PUSH(\"b\") ~ DROP", "PUSH(\"a\") ~ PUSH(\"b\")", "PEEK ~ POP", "POP ~ PUSH(\"a\")", "POP_ALL ~ PUSH(\"b\")"];
    let wrap = |k: usize, body: &str| -> String {
        match k {
            0 => format!("(({}) | \"a\")", body),
            1 => format!("(({}) | \"\")", body),
            2 => format!("({})?", body),
            3 => format!("({})*", body),
            4 => format!("({})+", body),
            5 => format!("({}){{1,2}}", body),
            6 => format!("&({})", body),
            _ => format!("!({})", body),
        }
    };
    let readers_q = ["", " ~ PEEK_ALL"];
    let readers_t = [" ~ PEEK", " ~ POP", " ~ POP_ALL", " ~ PEEK[0..1]", " ~ PEEK[-1..]", " ~ DROP ~ DROP"];
    let bodies = |ops: &[&str]| -> Vec<String> {
        let mut v = vec![];
        for op in ops {
            for t in ["\"a\"", "\"b\""] {
                v.push(format!("{} ~ {}", op, t));
                v.push(format!("{} ~ {}", t, op));
            }
        }
        v
    };
    let mut quick_exprs: Vec<String> = vec![];
    let mut thorough_exprs: Vec<String> = vec![];
    for body in bodies(&ops_q) {
        for k in 0..8 {
            for r in readers_q {
                quick_exprs.push(format!("{}{}", wrap(k, &body), r));
            }
            for r in readers_t {
                thorough_exprs.push(format!("{}{}", wrap(k, &body), r));
            }
        }
    }
    for body in bodies(&ops_t) {
        for k in 0..8 {
            for r in readers_q.iter().chain(readers_t.iter()) {
                thorough_exprs.push(format!("{}{}", wrap(k, &body), r));
            }
        }
    }
    // self-contained (recognition on an empty initial stack shows it): an entry pushed before the attempt is
    // replaced inside the attempt (same depth, other content), the attempt is abandoned, a reader follows
    for (oi, op) in ["DROP ~ PUSH(\"b\")", "POP ~ PUSH(\"b\")", "POP_ALL ~ PUSH(\"b\")"].iter().enumerate() {
        for body in bodies(&[*op]) {
            for k in 0..8 {
                for (ri, r) in [" ~ PEEK", " ~ PEEK_ALL ~ \"a\"?", " ~ POP ~ PEEK?"].iter().enumerate() {
                    let e = format!("PUSH(\"a\") ~ {}{}", wrap(k, &body), r);
                    if oi == 0 && ri == 0 {
                        quick_exprs.push(e);
                    } else {
                        thorough_exprs.push(e);
                    }
                }
            }
        }
    }
    // nesting depth 2: K inside K
    for (oi, op) in ["PUSH(\"a\")", "POP", "DROP"].iter().enumerate() {
        let body = format!("{} ~ \"b\"", op);
        for ki in 0..8 {
            let inner = wrap(ki, &body);
            for ko in [0usize, 2, 3, 6, 7] {
                let e = wrap(ko, &format!("{} ~ \"a\"", inner));
                for r in ["", " ~ PEEK_ALL", " ~ POP_ALL"] {
                    // nesting depth 2 belongs to the quick corpus: an inner attempt that succeeds after popping,
                    // inside an outer attempt that fails afterwards, is where a restore is easily lost
                    if r.is_empty() || (r == " ~ PEEK_ALL" && oi > 0) {
                        quick_exprs.push(format!("{}{}", e, r));
                    } else {
                        thorough_exprs.push(format!("{}{}", e, r));
                    }
                }
            }
        }
    }
    // through rules: the stack operation sits in another rule
    let helpers = vec![
        RuleSpec::helper("hp", 'N', "PUSH(\"a\") ~ \"b\""),
        RuleSpec::helper("hq", 'S', "POP ~ \"b\""),
        RuleSpec::helper("hd", 'A', "DROP ~ \"b\""),
        RuleSpec::helper("h0", 'N', "DROP"),
    ];
    for h in ["hp", "hq", "hd"] {
        for k in 0..8 {
            quick_exprs.push(format!("{} ~ PEEK_ALL", wrap(k, h)));
        }
    }
    // a tracked rule fails first, input is consumed, then a stack operation fails on an empty stack
    for e in [
        "hp? ~ \"a\" ~ POP",
        "hd? ~ \"b\" ~ DROP",
        "(hp | \"a\") ~ \"b\"? ~ PEEK",
        "hq? ~ \"a\" ~ PEEK[0..1]",
        "!hp ~ \"a\" ~ \"b\"? ~ POP ~ hp",
    ] {
        quick_exprs.push(e.to_string());
    }
    // open-ended peek slices under a repetition (the slice is the only consumer of the iteration)
    for e in [
        "PUSH(\"a\") ~ (PEEK[..])* ~ DROP",
        "PUSH(\"ab\") ~ (PEEK[0..])* ~ \"b\"?",
        "PUSH(\"a\") ~ PUSH(\"b\") ~ (PEEK[1..])+ ~ PEEK_ALL?",
        "PUSH(\"a\") ~ (PEEK[-1..] ~ \"b\"?)* ~ POP",
        "PUSH(\"a\") ~ (PEEK[0..1])* ~ \"b\"",
    ] {
        quick_exprs.push(e.to_string());
    }
    // repetitions whose iterations make progress on the stack only (zero width)
    for e in [
        "DROP* ~ \"a\"",
        "DROP+ ~ PEEK_ALL",
        "h0* ~ \"a\"?",
        "PUSH(\"a\") ~ PUSH(\"\") ~ h0* ~ \"b\"?",
        "PUSH(\"a\") ~ PUSH(\"a\") ~ h0+ ~ PEEK_ALL",
        "(DROP ~ \"a\"?)* ~ \"b\"",
        "(h0 | \"a\")* ~ PEEK_ALL",
        "DROP{2,} ~ \"a\"",
        "(&PEEK ~ DROP)* ~ \"a\"?",
    ] {
        quick_exprs.push(e.to_string());
    }
    for (quick, list) in [(true, quick_exprs), (false, thorough_exprs)] {
        let ok: Vec<&String> = list.iter().filter(|e| valid_body('N', e, &helpers)).collect();
        eprintln!("gramgen: stack/{}: {} of {}", if quick { "quick" } else { "thorough" }, ok.len(), list.len());
        for (ci, chunk) in ok.chunks(85).enumerate() {
            let mut rules = helpers.clone();
            for (k, e) in chunk.iter().enumerate() {
                rules.push(RuleSpec::new(&format!("e{}", k), 'N', e));
                // atomic twin: the same expression matched through the check path
                rules.push(RuleSpec::new(&format!("a{}", k), 'A', e));
            }
            out.push(GSpec {
                id: format!("stack_{}{}", if quick { "q" } else { "t" }, ci),
                family: "stack".into(),
                quick,
                rules,
                alphabet: "ab".into(),
                max_len: 6,
                max_len_thorough: 7,
                init_alphabet: strs(&["a", "b", ""]),
                init_depth: 2,
                ..Default::default()
            });
        }
    }
    // skip rules that touch the stack and can fail afterwards: the last (failing) iteration of every implicit skip
    // is an abandoned attempt like any other
    for (id, skip_rule, alphabet) in [
        ("stack_skip_c", RuleSpec::helper("COMMENT", 'S', "PUSH(\"#\") ~ \"[\" ~ DROP"), "ab#["),
        ("stack_skip_w", RuleSpec::helper("WHITESPACE", 'S', "PUSH(\" \") ~ \"[\" ~ DROP"), "ab ["),
        ("stack_skip_p", RuleSpec::helper("COMMENT", 'S', "POP ~ \"[\""), "ab#["),
        ("stack_skip_n", RuleSpec::helper("COMMENT", 'N', "PUSH(\"#\") ~ \"[\" ~ DROP"), "ab#["),
        // skip rules with a net effect on the stack (a push / a drop that stays when the skip is kept, and must
        // be given back with the skip when the iteration or the lookahead around it is abandoned)
        ("stack_skip_u", RuleSpec::helper("COMMENT", 'S', "\"#\" ~ PUSH(\"b\")"), "ab#["),
        ("stack_skip_d", RuleSpec::helper("COMMENT", 'S', "\"#\" ~ DROP"), "ab#["),
    ] {
        let mut rules = vec![skip_rule];
        let bodies = [
            "\"a\" ~ \"b\"? ~ PEEK_ALL",
            "\"a\" ~ (\"b\")* ~ PEEK_ALL ~ \"a\"?",
            "PUSH(\"#\") ~ \"a\" ~ \"b\"? ~ PEEK",
            "PUSH(\"#\") ~ \"a\" ~ \"b\"? ~ PEEK_ALL ~ \"a\"?",
            "!(\"a\" ~ \"b\") ~ \"a\" ~ PEEK_ALL?",
            "(\"a\" ~ \"b\")? ~ PEEK_ALL ~ \"a\"?",
            "PUSH(\"a\") ~ (\"b\" ~ POP)+",
            "(\"a\")* ~ PEEK_ALL ~ \"a\"?",
            "PUSH(\"a\") ~ (\"b\")+ ~ PEEK_ALL",
            "PUSH(\"a\") ~ !(\"b\" ~ \"b\") ~ \"b\"? ~ PEEK_ALL",
            "PUSH(\"a\") ~ &(\"b\" ~ \"a\"?) ~ PEEK_ALL? ~ \"b\"",
        ];
        for (k, b) in bodies.iter().enumerate() {
            rules.push(RuleSpec::new(&format!("e{}", k), 'N', b));
            rules.push(RuleSpec::new(&format!("x{}", k), 'X', b));
            // the check path: an atomic rule around the non-atomic one
            rules.push(RuleSpec::new(&format!("a{}", k), 'A', &format!("x{}", k)));
            rules.push(RuleSpec::new(&format!("c{}", k), 'C', &format!("x{} ~ \"a\"?", k)));
        }
        assert!(valid(&rules), "{}", id);
        out.push(GSpec {
            id: id.into(),
            family: "stack".into(),
            quick: true,
            rules,
            alphabet: alphabet.into(),
            max_len: 5,
            max_len_thorough: 6,
            init_alphabet: strs(&["#", ""]),
            init_depth: 1,
            ..Default::default()
        });
    }
}

/// Slice family: PUSH(x1) ~ .. ~ PUSH(xd) ~ PEEK[a..b].
fn slice(out: &mut Vec<GSpec>) {
    for (quick, dmax, lo, hi) in [(true, 3usize, -4i32, 4i32), (false, 4, -6, 6)] {
        let mut exprs = vec![];
        for d in 0..=dmax {
            for a in lo..=hi {
                let mut ends: Vec<Option<i32>> = vec![None];
                ends.extend((lo..=hi).map(Some));
                for b in ends {
                    if !quick && d <= 3 && a >= -4 && a <= 4 && b.map_or(true, |b| (-4..=4).contains(&b)) {
                        continue; // already in the quick corpus
                    }
                    let mut e = String::new();
                    for _ in 0..d {
                        e.push_str("PUSH('a'..'b') ~ ");
                    }
                    match b {
                        Some(b) => e.push_str(&format!("PEEK[{}..{}]", a, b)),
                        None => e.push_str(&format!("PEEK[{}..]", a)),
                    }
                    exprs.push(e);
                }
            }
        }
        let ok: Vec<&String> = exprs.iter().filter(|e| valid_body('N', e, &[])).collect();
        eprintln!("gramgen: slice/{}: {} of {}", if quick { "quick" } else { "thorough" }, ok.len(), exprs.len());
        for (ci, chunk) in ok.chunks(170).enumerate() {
            let mut rules = vec![];
            for (k, e) in chunk.iter().enumerate() {
                rules.push(RuleSpec::new(&format!("e{}", k), 'N', e));
            }
            out.push(GSpec {
                id: format!("slice_{}{}", if quick { "q" } else { "t" }, ci),
                family: "slice".into(),
                quick,
                rules,
                alphabet: "ab".into(),
                max_len: 6,
                max_len_thorough: 8,
                init_alphabet: strs(&["a", "b", "ab", ""]),
                init_depth: if quick { 1 } else { 2 },
                ..Default::default()
            });
        }
    }
    // stack built-ins in atomic and non-atomic context, PUSH of a skip-containing expression
    let skip = vec![RuleSpec::helper("WHITESPACE", 'S', "\" \"")];
    let mut rules = skip.clone();
    let bodies = [
        "PUSH(\"a\" ~ \"b\") ~ PEEK",
        "PUSH(\"a\" ~ \"b\") ~ POP",
        "PUSH(\"a\" ~ \"b\") ~ \"a\" ~ PEEK_ALL",
        "PUSH(\"a\"+) ~ PUSH(\"b\") ~ PEEK[0..1] ~ PEEK[1..2]",
        "PUSH(\"a\") ~ PUSH(\"b\") ~ POP_ALL",
        "PUSH(\"a\") ~ DROP ~ \"b\"",
        "PUSH(\"a\"*) ~ \"b\" ~ PEEK",
        "PUSH(\"a\" ~ \"b\"*) ~ PEEK[-1..]",
        // extreme bounds (pest takes any i32 and fails gracefully when out of range)
        "PUSH(\"a\") ~ (PEEK[-2147483648..] | \"b\")",
        "PUSH(\"a\") ~ (PEEK[..2147483647] | \"b\")",
        "PUSH(\"a\") ~ PEEK[-2147483647..1]? ~ \"b\"?",
        "PUSH(\"a\") ~ (PEEK[0..-2147483648] | \"a\")",
        "PUSH(\"a\") ~ PEEK[2147483647..]? ~ \"b\"",
        "PUSH(\"a\") ~ (PEEK[-2147483648..-2147483648] | \"a\")",
    ];
    for (k, b) in bodies.iter().enumerate() {
        for kd in ['N', 'A', 'C', 'X'] {
            rules.push(RuleSpec::new(&format!("s{}{}", kd, k), kd, b));
        }
    }
    assert!(valid(&rules));
    out.push(GSpec {
        id: "slice_ctx".into(),
        family: "slice".into(),
        quick: true,
        rules,
        alphabet: "ab ".into(),
        max_len: 6,
        max_len_thorough: 8,
        init_alphabet: strs(&["a", "b"]),
        init_depth: 1,
        ..Default::default()
    });
}

/// F-utf8: multi-byte terminals, all input forms.
fn utf8(out: &mut Vec<GSpec>) {
    let ts = strs(&[
        "\"é\"",
        "\"a€\"",
        "^\"é\"",
        "^\"a€\"",
        "'a'..'€'",
        "ANY",
        "NEWLINE",
        "\"😀\"",
        "LETTER",
        "CURRENCY_SYMBOL",
        // ranges that start in ASCII and end outside, with a large low byte in the upper bound
        "'a'..'é'",
        "'\\u{00}'..'\\u{10FFFF}'",
    ]);
    let mut q: Vec<String> = vec![];
    let mut t: Vec<String> = vec![];
    for x in &ts {
        q.push(x.clone());
        q.push(format!("({})?", x));
        q.push(format!("({})*", x));
        q.push(format!("&({}) ~ ANY", x));
        q.push(format!("!({}) ~ ANY", x));
        q.push(format!("SOI ~ {}", x));
        q.push(format!("{} ~ EOI", x));
        q.push(format!("PUSH({}) ~ PEEK", x));
        t.push(format!("({})+", x));
        t.push(format!("({}){{2}}", x));
        t.push(format!("PUSH({}) ~ POP", x));
        t.push(format!("(!({}) ~ ANY)*", x));
    }
    for (i, l) in ts.iter().enumerate() {
        for (j, r) in ts.iter().enumerate() {
            let target = if (i + j) % 4 == 0 { &mut q } else { &mut t };
            target.push(format!("{} ~ {}", l, r));
            target.push(format!("{} | {}", l, r));
        }
    }
    let ws = vec![RuleSpec::helper("WHITESPACE", 'S', "\"é\"")];
    for (name, ctx, quick, list) in [("q", vec![], true, &q), ("t", vec![], false, &t), ("ws", ws, true, &q)] {
        let ok: Vec<&String> = list.iter().filter(|e| valid_body('N', e, &ctx)).collect();
        eprintln!("gramgen: utf8/{}: {} of {}", name, ok.len(), list.len());
        let per = 60;
        for (ci, chunk) in ok.chunks(per).enumerate() {
            let mut rules = ctx.clone();
            for (k, e) in chunk.iter().enumerate() {
                rules.push(RuleSpec::new(&format!("e{}", k), 'N', e));
            }
            if name != "ws" || ci == 0 {
                // skip-until (only the optimizer of atomic rules produces it)
                rules.push(RuleSpec::new("su0", 'A', "(!(\"€a\" | \"b\") ~ ANY)*"));
                rules.push(RuleSpec::new("su1", 'A', "(!\"é\" ~ ANY)* ~ \"é\""));
                rules.push(RuleSpec::new("su2", 'A', "\"a\" ~ (!(\"a€\") ~ ANY)* ~ ANY?"));
                rules.push(RuleSpec::new("su3", 'N', "su0 ~ ANY"));
                // a single delimiter of several characters, nothing after it that could hide where the skip stopped
                rules.push(RuleSpec::new("su4", 'A', "(!\"a€\" ~ ANY)*"));
                rules.push(RuleSpec::new("su5", 'A', "(!\"\\r\\n\" ~ ANY)* ~ \"\\r\"?"));
                rules.push(RuleSpec::new("su6", 'A', "(!\"éa\" ~ ANY)* ~ \"é\""));
            }
            if name == "ws" && ci > 0 {
                break;
            }
            out.push(GSpec {
                id: format!("utf8_{}{}", name, ci),
                family: "utf8".into(),
                quick,
                rules,
                alphabet: "aé€😀\r\nÉ".into(),
                max_len: 3,
                max_len_thorough: 4,
                all_forms: true,
                ..Default::default()
            });
        }
    }
}


/// Escapes in string literals and ranges (the generator re-escapes them into Rust constants).
fn utf8_esc(out: &mut Vec<GSpec>) {
    let bodies = [
        r#""\"""#,
        r#""\\""#,
        r#""\n""#,
        r#""\t" ~ "\r"?"#,
        r#""\u{e9}""#,
        r#""\x61""#,
        r#""a\"\\b""#,
        r#"'\\'..'a'"#,
        r#"'"'..'a'"#,
        r#"'\''..'a'"#,
        r#"^"\u{e9}a""#,
        r#""\0" | "\'" "#,
        r#"("\"" | "\\")* ~ "a""#,
        r#"PUSH("\"" ~ "a"?) ~ "\n" ~ PEEK"#,
        r#"(!"\\\"" ~ ANY)* ~ "\\"?"#,
    ];
    let mut rules = vec![];
    for (k, b) in bodies.iter().enumerate() {
        rules.push(RuleSpec::new(&format!("e{}", k), 'N', b));
        rules.push(RuleSpec::new(&format!("a{}", k), 'A', b));
    }
    assert!(valid(&rules), "utf8_esc");
    out.push(GSpec {
        id: "utf8_esc".into(),
        family: "utf8".into(),
        quick: true,
        rules,
        alphabet: "a\"\\\n'é".into(),
        max_len: 4,
        max_len_thorough: 5,
        all_forms: true,
        ..Default::default()
    });
}

/// Case-insensitive literals that contain punctuation and digits (bytes whose bit-5 twin is not a letter).
fn utf8_ci(out: &mut Vec<GSpec>) {
    let bodies = [
        r#"^"a[""#,
        r#"^"@_""#,
        r#"^"1-""#,
        r#"!(^"[") ~ ANY"#,
        r#"^"a[" | "a{""#,
        r#"(^"_" | ^"-")+ ~ ^"a"?"#,
    ];
    let mut rules = vec![];
    for (k, b) in bodies.iter().enumerate() {
        rules.push(RuleSpec::new(&format!("e{}", k), 'N', b));
        rules.push(RuleSpec::new(&format!("a{}", k), 'A', b));
    }
    assert!(valid(&rules), "utf8_ci");
    out.push(GSpec {
        id: "utf8_ci".into(),
        family: "utf8".into(),
        quick: true,
        rules,
        alphabet: "aA[{@`_\u{7f}1\u{11}-\r".into(),
        max_len: 3,
        max_len_thorough: 4,
        all_forms: true,
        ..Default::default()
    });
}

/// F-tree: recursive and wide grammars (pair trees, traversal helpers, getters).
fn tree(out: &mut Vec<GSpec>) {
    let rules1 = vec![
        RuleSpec::helper("WHITESPACE", 'N', "\" \""),
        RuleSpec::new("t", 'N', "\"(\" ~ t* ~ \")\""),
        RuleSpec::new("ts", 'S', "\"(\" ~ (ts | a)* ~ \")\""),
        RuleSpec::new("tc", 'C', "\"(\" ~ tc* ~ \")\""),
        RuleSpec::new("tx", 'X', "\"(\" ~ tx* ~ \")\""),
        RuleSpec::new("tn", 'N', "\"(\" ~ (ts | tn | a)* ~ \")\""),
        RuleSpec::new("a", 'N', "\"a\""),
        RuleSpec::new("l", 'N', "a ~ l?"),
        RuleSpec::new("w", 'N', "a ~ a ~ a ~ y*"),
        RuleSpec::new("y", 'N', "\"(\" ~ \")\""),
        RuleSpec::new("sw", 'S', "a ~ w?"),
        RuleSpec::new("la", 'N', "&a ~ a ~ !a"),
        RuleSpec::new("e", 'N', "a* ~ EOI"),
        RuleSpec::new("m", 'N', "(a | y)+"),
        RuleSpec::new("n", 'N', "(a ~ y)? ~ a"),
        RuleSpec::new("p", 'N', "PUSH(a) ~ y ~ POP"),
        RuleSpec::new("at", 'A', "a ~ y"),
        RuleSpec::new("ct", 'C', "a ~ y ~ xt?"),
        RuleSpec::new("xt", 'X', "a ~ a"),
        RuleSpec::new("top", 'N', "t ~ l? ~ at ~ tc?"),
        RuleSpec::new("deep", 'N', "sw ~ (la | m)? ~ e"),
        RuleSpec::new("opt", 'N', "a? ~ y? ~ a?"),
        RuleSpec::new("cnt", 'N', "a{2,3} ~ y{,2}"),
        // same span, different content depending on what lies behind a sub-input's end
        RuleSpec::new("lk", 'N', "a ~ (&a)?"),
        RuleSpec::new("lks", 'S', "a ~ (!a ~ y?)?"),
    ];
    assert!(valid(&rules1));
    out.push(GSpec {
        id: "tree_1".into(),
        family: "tree".into(),
        quick: true,
        rules: rules1,
        alphabet: "()a ".into(),
        max_len: 6,
        max_len_thorough: 8,
        tree: true,
        getters: true,
        compare: true,
        all_forms: true,
        ..Default::default()
    });
    // silent WHITESPACE, comments visible, no skip at all
    for (id, skip) in [
        ("tree_2", vec![RuleSpec::helper("WHITESPACE", 'S', "\" \""), RuleSpec::helper("COMMENT", 'N', "\"#\"")]),
        ("tree_3", vec![]),
    ] {
        let mut rules = skip.clone();
        rules.extend(vec![
            RuleSpec::new("t", 'N', "\"(\" ~ (t | a)* ~ \")\""),
            RuleSpec::new("a", 'N', "\"a\""),
            RuleSpec::new("b", 'A', "\"a\"+"),
            RuleSpec::new("l", 'N', "a ~ l?"),
            RuleSpec::new("w", 'N', "a ~ b? ~ (a | t)*"),
            RuleSpec::new("s", 'S', "a ~ (\"(\" ~ s ~ \")\")?"),
            RuleSpec::new("u", 'N', "s ~ EOI"),
            RuleSpec::new("c", 'C', "a ~ t"),
            RuleSpec::new("x", 'X', "c ~ a"),
            RuleSpec::new("k", 'N', "!b ~ t | &a ~ b"),
        ]);
        assert!(valid(&rules));
        out.push(GSpec {
            id: id.into(),
            family: "tree".into(),
            quick: true,
            rules,
            alphabet: if id == "tree_2" { "()a #".into() } else { "()a".into() },
            max_len: if id == "tree_2" { 5 } else { 7 },
            max_len_thorough: if id == "tree_2" { 7 } else { 9 },
            tree: true,
            getters: true,
            compare: true,
            ..Default::default()
        });
    }
    // WHITESPACE / COMMENT built from sub-rules
    let rules = vec![
        RuleSpec::helper("WHITESPACE", 'S', "sp"),
        RuleSpec::new("sp", 'N', "\" \""),
        RuleSpec::helper("COMMENT", 'N', "\"#\" ~ ci"),
        RuleSpec::new("ci", 'N', "\"#\""),
        RuleSpec::new("a", 'N', "\"a\""),
        RuleSpec::new("r", 'N', "a ~ a"),
        RuleSpec::new("rr", 'N', "a*"),
        RuleSpec::new("rx", 'X', "a+"),
        RuleSpec::new("ra", 'A', "a ~ r"),
    ];
    assert!(valid(&rules));
    out.push(GSpec {
        id: "tree_wsub".into(),
        family: "tree".into(),
        quick: true,
        rules,
        alphabet: "a #".into(),
        max_len: 6,
        max_len_thorough: 8,
        tree: true,
        ..Default::default()
    });
    // deep trees: structured inputs far beyond the exhaustive length bound (nesting depth up to 24)
    let rules = vec![
        RuleSpec::helper("WHITESPACE", 'N', "\" \""),
        RuleSpec::new("t", 'N', "\"(\" ~ t* ~ \")\""),
        RuleSpec::new("ts", 'S', "\"(\" ~ (ts | a)* ~ \")\""),
        RuleSpec::new("tn", 'N', "\"(\" ~ (ts | tn | a)* ~ \")\""),
        RuleSpec::new("tx", 'X', "\"(\" ~ tx* ~ \")\""),
        RuleSpec::new("a", 'N', "\"a\""),
        RuleSpec::new("l", 'N', "a ~ l?"),
        // leaves whose text needs care when rendered
        RuleSpec::new("u", 'N', "\"é\" | \"'\" | \"日\" | \"\\\"\""),
        RuleSpec::new("us", 'N', "(u | a)+"),
    ];
    assert!(valid(&rules));
    let mut inputs: Vec<String> = vec!["é".to_string(), "'".to_string(), "é'日a".to_string(), "\"a'".to_string(), "a 日 é".to_string()];
    for d in [1usize, 2, 3, 8, 15, 16, 17, 18, 24] {
        inputs.push(format!("{}{}", "(".repeat(d), ")".repeat(d)));
        inputs.push(format!("{}a{}", "(".repeat(d), ")".repeat(d)));
        inputs.push(format!("{}() a{}", "( ".repeat(d), ")".repeat(d)));
        inputs.push("a".repeat(d));
        inputs.push(format!("{}{}", "(".repeat(d), ")".repeat(d - 1)));
    }
    inputs.sort();
    inputs.dedup();
    out.push(GSpec {
        id: "tree_deep".into(),
        family: "tree".into(),
        quick: true,
        rules,
        alphabet: "()a ".into(),
        max_len: 0,
        max_len_thorough: 0,
        inputs: Some(inputs),
        tree: true,
        getters: true,
        ..Default::default()
    });
}

/// Mention shapes of a referenced rule (C16).
fn mention(out: &mut Vec<GSpec>) {
    let helpers = vec![
        RuleSpec::helper("x", 'N', "\"a\""),
        RuleSpec::helper("xs", 'S', "\"a\""),
        RuleSpec::helper("xa", 'A', "\"a\""),
        RuleSpec::helper("y", 'N', "\"b\""),
    ];
    // one-mention wrappers
    let w1: Vec<Box<dyn Fn(&str) -> String>> = vec![
        Box::new(|e| e.to_string()),
        Box::new(|e| format!("({})?", e)),
        Box::new(|e| format!("({})*", e)),
        Box::new(|e| format!("({})+", e)),
        Box::new(|e| format!("&({}) ~ ANY", e)),
        Box::new(|e| format!("PUSH({})", e)),
        Box::new(|e| format!("({}) ~ \"b\"", e)),
        Box::new(|e| format!("\"b\" ~ ({})", e)),
        Box::new(|e| format!("({}) | \"b\"", e)),
        Box::new(|e| format!("\"b\" | ({})", e)),
        Box::new(|e| format!("\"b\"? ~ ({}) ~ \"b\"?", e)),
    ];
    let mut shapes: Vec<String> = vec![];
    for f in &w1 {
        shapes.push(f("X"));
    }
    for f in &w1[1..] {
        for g in &w1[1..] {
            shapes.push(f(&format!("({})", g("X"))));
        }
    }
    // several mentions
    for s in [
        "X ~ X",
        "X | X",
        "X ~ X?",
        "X* ~ X",
        "X? ~ \"b\" ~ X+",
        "(X ~ X)*",
        "(X | X)?",
        "(X ~ \"b\" ~ X)+",
        "(X | \"b\") ~ X*",
        "X ~ (X | \"b\" ~ X)",
        "(X ~ X)? ~ X",
        "PUSH(X ~ X) ~ X",
        "(X? ~ \"b\")? ~ X",
        "!X ~ \"b\" ~ X",
        "&(X ~ X) ~ X ~ !X",
        "X ~ y ~ X",
        "(X | y)* ~ y?",
        "(X ~ y)* ~ X?",
        "X{2}",
        "X{1,3}",
        "(X ~ y){,2} ~ X",
        // wide choices (library Choice11, generated Choice12) with the mention in the last alternatives
        "\"bbbb\" | \"bbba\" | \"bbab\" | \"bbaa\" | \"babb\" | \"baba\" | \"baab\" | \"baaa\" | \"bb\" | \"ba\" ~ X | \"b\" ~ X",
        "\"bbbb\" | \"bbba\" | \"bbab\" | \"bbaa\" | \"babb\" | \"baba\" | \"baab\" | \"baaa\" | \"bb\" | \"ba\" ~ X | \"b\" ~ X | X",
        "(\"bbb\" | \"bba\" | \"bab\" | \"baa\" | \"bb\" | \"ba\" ~ X | \"b\" ~ X | X)*",
    ] {
        shapes.push(s.to_string());
    }
    // depth 3
    for f in [&w1[1], &w1[2], &w1[8]] {
        for g in [&w1[1], &w1[2], &w1[4], &w1[5], &w1[6], &w1[8]] {
            for h in [&w1[1], &w1[2], &w1[5], &w1[9]] {
                shapes.push(f(&format!("({})", g(&format!("({})", h("X"))))));
            }
        }
    }
    let mut k = 0usize;
    let mut all: Vec<(bool, RuleSpec)> = vec![];
    for (si, s) in shapes.iter().enumerate() {
        for (xi, x) in ["x", "xs", "xa", "ANY"].iter().enumerate() {
            let body = s.replace('X', x);
            if !valid_body('N', &body, &helpers) {
                continue;
            }
            let quick = xi == 0 || si % 4 == xi;
            all.push((quick, RuleSpec::new(&format!("m{}", k), if si % 5 == 4 { 'S' } else { 'N' }, &body)));
            k += 1;
        }
    }
    eprintln!("gramgen: mention: {} rules from {} shapes", all.len(), shapes.len());
    for quick in [true, false] {
        let list: Vec<&RuleSpec> = all.iter().filter(|(q, _)| *q == quick).map(|(_, r)| r).collect();
        for (ci, chunk) in list.chunks(120).enumerate() {
            let mut rules = helpers.clone();
            rules.extend(chunk.iter().map(|r| (*r).clone()));
            out.push(GSpec {
                id: format!("mention_{}{}", if quick { "q" } else { "t" }, ci),
                family: "mention".into(),
                quick,
                rules: rules.clone(),
                alphabet: "ab".into(),
                max_len: 6,
                max_len_thorough: 8,
                getters: true,
                ..Default::default()
            });
            // the same shapes translated from the unoptimized AST
            out.push(GSpec {
                id: format!("mention_raw_{}{}", if quick { "q" } else { "t" }, ci),
                family: "mention".into(),
                quick,
                rules,
                alphabet: "ab".into(),
                max_len: 6,
                max_len_thorough: 8,
                getters: true,
                options: vec!["emit_rule_reference".to_string(), "pest_optimizer = false".to_string()],
                ..Default::default()
            });
        }
    }
}

/// F-arity: choices and sequences of arity 2..16, repetitions (C17).
fn arity(out: &mut Vec<GSpec>) {
    for (quick, ns) in [(true, vec![2usize, 3, 5, 11, 12, 13]), (false, vec![4, 6, 7, 8, 9, 10, 14, 15, 16])] {
        for n in ns {
            let mut rules = vec![
                RuleSpec::helper("WHITESPACE", 'N', "\" \""),
                RuleSpec::helper("COMMENT", 'N', "\"#\""),
                RuleSpec::helper("ka", 'N', "\"a\""),
                RuleSpec::helper("kb", 'A', "\"a\""),
            ];
            // overlapping alternatives: k_i matches a^(n-i); the first alternative that matches wins
            for i in 0..n {
                rules.push(RuleSpec::helper(&format!("k{}", i), 'N', &format!("\"a\"{{{}}}", n - i)));
            }
            let alts: Vec<String> = (0..n).map(|i| format!("k{}", i)).collect();
            rules.push(RuleSpec::new("c", 'N', &alts.join(" | ")));
            rules.push(RuleSpec::new("ca", 'C', &alts.join(" | ")));
            // sequence of arity n, alternating element rules
            let elems: Vec<&str> = (0..n).map(|i| if i % 3 == 2 { "kb" } else { "ka" }).collect();
            rules.push(RuleSpec::new("s", 'N', &elems.join(" ~ ")));
            rules.push(RuleSpec::new("sx", 'X', &elems.join(" ~ ")));
            // alternatives that differ only in how many iterations an open-ended counted repetition demands
            rules.push(RuleSpec::helper("km3", 'N', "ka{3,}"));
            rules.push(RuleSpec::helper("km", 'N', "ka{2,}"));
            rules.push(RuleSpec::helper("ki", 'N', "^\"aa\""));
            rules.push(RuleSpec::new("cmi", 'N', "ki | ka"));
            rules.push(RuleSpec::new("cm", 'N', "km3 | km | ka"));
            rules.push(RuleSpec::new("cmx", 'C', "km3 | km | kb"));
            rules.push(RuleSpec::new("r", 'N', "ka*"));
            rules.push(RuleSpec::new("rp", 'N', "(ka ~ kb)+"));
            rules.push(RuleSpec::new("rs", 'N', "(ka ~ kb)*"));
            assert!(valid(&rules), "arity {}", n);
            // inputs: a^k for the choice; n a's with 0/1 separators in up to 3 positions for the sequence
            let mut inputs: Vec<String> = vec![];
            for k in 0..=n + 1 {
                inputs.push("a".repeat(k));
            }
            let seps = ["", " ", "#", " # "];
            let gaps = n - 1;
            let mut push_with = |positions: &[(usize, usize)]| {
                let mut s = String::new();
                for i in 0..n {
                    s.push('a');
                    if i < gaps {
                        if let Some((_, k)) = positions.iter().find(|(p, _)| *p == i) {
                            s.push_str(seps[*k]);
                        }
                    }
                }
                inputs.push(s.clone());
                inputs.push(format!("{} ", s));
                inputs.push(s[..s.len() - 1].to_string());
            };
            push_with(&[]);
            for p in 0..gaps {
                for k in 1..4 {
                    push_with(&[(p, k)]);
                }
            }
            for p in 0..gaps {
                for q in p + 1..gaps {
                    if n <= 8 || (p + q) % 3 == 0 {
                        push_with(&[(p, 1), (q, 2)]);
                        push_with(&[(p, 3), (q, 1)]);
                    }
                }
            }
            inputs.push(" a".to_string());
            inputs.push("Aa".to_string());
            inputs.push("AA ".to_string());
            inputs.push("aA#".to_string());
            inputs.push("a a a a".to_string());
            inputs.push("a#a a #a#".to_string());
            inputs.sort();
            inputs.dedup();
            // the same grammar with the chains grouped to the right explicitly, translated from the unoptimized
            // AST (`a | (b | (c | d))` is flattened to one ChoiceN / SeqN there, `a | b | c` is not)
            if [3usize, 5, 12, 13, 7, 16].contains(&n) {
                let group = |items: &[String], op: &str| -> String {
                    let mut s = items[items.len() - 1].clone();
                    for it in items[..items.len() - 1].iter().rev() {
                        s = format!("{} {} ({})", it, op, s);
                    }
                    s
                };
                let elems_s: Vec<String> = elems.iter().map(|x| x.to_string()).collect();
                let mut r2 = rules.clone();
                for r in r2.iter_mut() {
                    match r.name.as_str() {
                        "c" | "ca" => r.body = group(&alts, "|"),
                        "s" | "sx" => r.body = group(&elems_s, "~"),
                        "cm" => r.body = group(&strs(&["km3", "km", "ka"]), "|"),
                        "cmx" => r.body = group(&strs(&["km3", "km", "kb"]), "|"),
                        _ => {}
                    }
                }
                assert!(valid(&r2), "arity rg {}", n);
                out.push(GSpec {
                    id: format!("arity_rg_{}", n),
                    family: "arity".into(),
                    quick: [3usize, 12, 13].contains(&n),
                    rules: r2,
                    alphabet: "a #".into(),
                    max_len: 0,
                    max_len_thorough: 0,
                    inputs: Some(inputs.clone()),
                    acc: true,
                    tree: true,
                    compare: true,
                    options: vec!["pest_optimizer = false".to_string()],
                    ..Default::default()
                });
            }
            out.push(GSpec {
                id: format!("arity_{}", n),
                family: "arity".into(),
                quick,
                rules,
                alphabet: "a #".into(),
                max_len: 0,
                max_len_thorough: 0,
                inputs: Some(inputs),
                acc: true,
                tree: true,
                compare: true,
                ..Default::default()
            });
        }
    }
}

/// F-sub: ASCII grammars explored through all three input forms (sub-inputs).
fn sub(out: &mut Vec<GSpec>) {
    let skip = vec![RuleSpec::helper("WHITESPACE", 'S', "\" \"")];
    let bodies = [
        "\"a\" ~ \"b\"",
        "(\"a\" | \"ab\")*",
        "SOI ~ \"a\"+",
        "\"a\"* ~ EOI",
        "SOI ~ \"b\"? ~ EOI",
        "^\"ab\" ~ ANY",
        "'a'..'b'+ ~ !\"a\"",
        "&(\"a\" ~ \"b\") ~ ANY{2}",
        "PUSH(\"a\"+) ~ \"b\" ~ PEEK",
        "(!(\"ab\" | \"ba\") ~ ANY)*",
        "(!\"b\" ~ ANY)* ~ \"b\"",
        "(!\"ab\" ~ ANY)* ~ ANY?",
        "ASCII_ALPHA+ ~ \" \"?",
        "(\"a\" ~ \"b\"?)+ ~ EOI?",
        "\"a\" ~ (!EOI ~ ANY)*",
        "(SOI | \"a\") ~ \"b\"",
        "ANY ~ ANY?",
        "\"ab\"{1,2}",
        "PUSH(\"a\"+) ~ \"b\" ~ PEEK_ALL",
        "PUSH(\"a\") ~ PUSH(\"b\") ~ PEEK[0..1] ~ POP_ALL",
        "PUSH(\"ab\") ~ \" \"? ~ PEEK[..] ~ POP",
        "(!\"ab\" ~ ANY)*",
        "(!\"ab\" ~ ANY)* ~ \"a\"",
        "(!\"aba\" ~ ANY)* ~ \"ab\"?",
    ];
    let mut rules = skip.clone();
    for (k, b) in bodies.iter().enumerate() {
        rules.push(RuleSpec::new(&format!("e{}", k), 'N', b));
        rules.push(RuleSpec::new(&format!("a{}", k), 'A', b));
        rules.push(RuleSpec::new(&format!("c{}", k), 'C', b));
        rules.push(RuleSpec::new(&format!("s{}", k), 'S', b));
    }
    // rule tokens that depend on where the sub-input starts and ends
    rules.push(RuleSpec::new("xa", 'N', "\"a\""));
    rules.push(RuleSpec::new("xf", 'N', "SOI ~ xa"));
    rules.push(RuleSpec::new("xe", 'N', "xf | xa ~ xa?"));
    rules.push(RuleSpec::new("xs", 'S', "(xf | xa)+"));
    rules.push(RuleSpec::new("xl", 'N', "xa ~ EOI"));
    rules.push(RuleSpec::new("xm", 'C', "(xl | xa)+"));
    assert!(valid(&rules));
    out.push(GSpec {
        id: "sub_1".into(),
        family: "sub".into(),
        quick: true,
        rules,
        alphabet: "ab ".into(),
        max_len: 5,
        max_len_thorough: 6,
        all_forms: true,
        compare: true,
        ..Default::default()
    });
}

/// Case-insensitive literals under all input forms (the matched spelling is part of the value).
fn sub_ci(out: &mut Vec<GSpec>) {
    let rules = vec![
        RuleSpec::new("k", 'S', "^\"ab\""),
        RuleSpec::new("kn", 'N', "^\"ab\""),
        RuleSpec::new("k2", 'S', "^\"a\" ~ ^\"b\"?"),
        RuleSpec::new("k3", 'S', "(^\"a\" | ^\"b\")*"),
        RuleSpec::new("ka", 'A', "^\"ab\" ~ ^\"a\"?"),
        // alternatives whose content renders alike: only the variant tells them apart
        RuleSpec::new("kc", 'S', "\"a\" | \"b\""),
        RuleSpec::new("kd", 'S', "(\"a\" | \"b\" | \"A\")+"),
    ];
    assert!(valid(&rules));
    out.push(GSpec {
        id: "sub_ci".into(),
        family: "sub".into(),
        quick: true,
        rules,
        alphabet: "abAB".into(),
        max_len: 4,
        max_len_thorough: 5,
        all_forms: true,
        compare: true,
        ..Default::default()
    });
}

/// Case-insensitive literals with punctuation, as rules of their own (which alternative wins shows in the tree).
fn sub_cip(out: &mut Vec<GSpec>) {
    let rules = vec![
        RuleSpec::new("kb", 'N', "^\"a[\""),
        RuleSpec::new("kk", 'N', "\"a{\" | \"A{\""),
        RuleSpec::new("o", 'N', "kb | kk"),
        RuleSpec::new("os", 'S', "(kb | kk)+"),
        RuleSpec::new("oa", 'C', "!kb ~ kk"),
    ];
    assert!(valid(&rules));
    out.push(GSpec {
        id: "sub_cip".into(),
        family: "sub".into(),
        quick: true,
        rules,
        alphabet: "aA[{".into(),
        max_len: 4,
        max_len_thorough: 5,
        all_forms: true,
        compare: true,
        ..Default::default()
    });
}

/// F-unicode: one rule per Unicode property name and per ASCII / NEWLINE built-in (C01).
fn unicode(out: &mut Vec<GSpec>) {
    let mut names: Vec<String> = pest::unicode::unicode_property_names().map(|s| s.to_string()).collect();
    names.sort();
    // A grammar that references the script property INHERITED does not compile (the imported type
    // clashes with the const generic parameter INHERITED of every rule struct): known finding of
    // C11, demonstrated by the compile probe `probe_builtin`; it cannot be part of a shard.
    names.retain(|n| n != "INHERITED");
    for b in ["ASCII_DIGIT", "ASCII_NONZERO_DIGIT", "ASCII_BIN_DIGIT", "ASCII_OCT_DIGIT", "ASCII_HEX_DIGIT", "ASCII_ALPHA_LOWER", "ASCII_ALPHA_UPPER", "ASCII_ALPHA", "ASCII_ALPHANUMERIC", "ASCII", "NEWLINE", "ANY"] {
        names.push(b.to_string());
    }
    for (ci, chunk) in names.chunks(100).enumerate() {
        let mut rules = vec![];
        for n in chunk {
            rules.push(RuleSpec::new(&format!("u_{}", n.to_lowercase()), 'N', n));
        }
        assert!(valid(&rules));
        out.push(GSpec {
            id: format!("unicode_{}", ci),
            family: "unicode".into(),
            quick: true,
            rules,
            alphabet: "".into(),
            max_len: 0,
            max_len_thorough: 0,
            inputs: Some(vec!["<<ALL-SCALARS>>".to_string()]),
            ..Default::default()
        });
    }
}

/// F-options: the same grammar under several option sets (C20).
fn options(out: &mut Vec<GSpec>) {
    let grammars: Vec<(&str, Vec<RuleSpec>, &str, usize)> = vec![
        (
            "rec",
            vec![
                RuleSpec::new("a", 'N', "\"a\" ~ b*"),
                RuleSpec::new("b", 'N', "\"b\" ~ c?"),
                RuleSpec::new("c", 'N', "a+"),
                RuleSpec::new("d", 'S', "\"(\" ~ (d | a)* ~ \")\""),
                RuleSpec::new("e", 'C', "a ~ d?"),
                RuleSpec::new("f", 'X', "e | b ~ f?"),
                RuleSpec::new("g", 'A', "(a | b)* ~ \"(\""),
            ],
            "ab()",
            6,
        ),
        (
            "ws",
            vec![
                RuleSpec::helper("WHITESPACE", 'S', "\" \""),
                RuleSpec::helper("COMMENT", 'N', "\"#\""),
                RuleSpec::new("x", 'N', "y ~ z"),
                RuleSpec::new("y", 'C', "\"a\" ~ x?"),
                RuleSpec::new("z", 'X', "\"b\"+ ~ (PUSH(y) ~ POP)?"),
                RuleSpec::new("l", 'N', "\"a\" ~ l?"),
                RuleSpec::new("m", 'N', "(l | n)*"),
                RuleSpec::new("n", 'N', "\"b\" ~ m ~ \"b\""),
                RuleSpec::new("p", 'N', "\"a\"+ ~ \"b\""),
                RuleSpec::new("q", 'A', "\"a\"+ ~ \"b\"* ~ !\"a\""),
                RuleSpec::new("r", 'N', "(\"a\" | \"b\")+ ~ EOI"),
                RuleSpec::new("pl", 'N', "\"a\"+"),
                RuleSpec::new("pm", 'N', "(\"a\" ~ \"b\")+"),
                RuleSpec::new("pn", 'X', "l+ ~ \"b\"?"),
            ],
            "ab #",
            6,
        ),
        (
            "cnt",
            vec![
                RuleSpec::helper("WHITESPACE", 'S', "\" \""),
                RuleSpec::new("c1", 'N', "\"a\"{2}"),
                RuleSpec::new("c2", 'N', "\"a\"{1,3} ~ \"b\""),
                RuleSpec::new("c3", 'N', "(\"a\" | \"b\"){,2}"),
                RuleSpec::new("c4", 'N', "\"a\"{2,} ~ \"b\"?"),
                RuleSpec::new("c5", 'A', "\"a\"{2} ~ \"b\"{1,2}"),
                RuleSpec::new("c6", 'N', "c1{1,2}"),
            ],
            "ab ",
            7,
        ),
    ];
    let mut grammars = grammars;
    grammars.push((
        "skipref",
        vec![
            RuleSpec::helper("WHITESPACE", 'S', "\" \""),
            RuleSpec::helper("COMMENT", 'S', "\"#\" ~ \"a\"* ~ \"#\""),
            RuleSpec::new("n", 'N', "\"a\" ~ COMMENT ~ \"b\""),
            RuleSpec::new("x", 'X', "\"a\" ~ COMMENT* ~ \"b\""),
            RuleSpec::new("s", 'S', "\"b\" ~ WHITESPACE ~ COMMENT?"),
            RuleSpec::new("a", 'A', "\"a\" ~ COMMENT ~ x"),
            RuleSpec::new("c", 'C', "n | s"),
        ],
        "ab #",
        7,
    ));
    grammars.push((
        "cnt2",
        vec![
            RuleSpec::helper("WHITESPACE", 'N', "\" \""),
            RuleSpec::new("item", 'N', "\"a\""),
            RuleSpec::new("x3", 'N', "item{3}"),
            RuleSpec::new("x13", 'N', "item{1,3}"),
            RuleSpec::new("x02", 'N', "item{,2} ~ \"b\""),
            RuleSpec::new("x2p", 'N', "item{2,}"),
            RuleSpec::new("xp", 'N', "item+ ~ \"b\"?"),
            RuleSpec::new("xa", 'C', "item{2} ~ x13?"),
        ],
        "ab ",
        7,
    ));
    let names = ["box_only_if_needed", "emit_rule_reference", "emit_tagged_node_reference", "do_not_emit_span", "no_warnings", "pest_optimizer = false"];
    for (gname, rules, alphabet, len) in grammars {
        assert!(valid(&rules));
        let base_id = format!("options_{}_base", gname);
        let mut sets: Vec<(bool, Vec<&str>)> = vec![];
        for mask in 0u32..64 {
            let set: Vec<&str> = (0..6).filter(|i| mask & (1 << i) != 0).map(|i| names[i]).collect();
            let quick = mask.count_ones() <= 1 || mask == 63 || mask == 31;
            sets.push((quick, set));
        }
        for (si, (quick, set)) in sets.iter().enumerate() {
            let optimizer_off = set.contains(&"pest_optimizer = false");
            let _ = optimizer_off;
            // an empty option list would add emit_rule_reference in the writer: spell the default explicitly
            let mut opts: Vec<String> = set.iter().map(|s| s.to_string()).collect();
            if opts.is_empty() {
                opts.push("no_warnings = false".to_string());
            }
            out.push(GSpec {
                id: if si == 0 { base_id.clone() } else { format!("options_{}_{}", gname, si) },
                family: "options".into(),
                quick: *quick,
                rules: rules.clone(),
                alphabet: alphabet.into(),
                max_len: len - 1,
                max_len_thorough: len,
                options: opts,
                base_id: if si == 0 { String::new() } else { base_id.clone() },
                no_pest: false,
                ..Default::default()
            });
        }
    }
}

/// Reference cycles of length 1..6 in three declaration orders, with optional leading / trailing
/// leaf rules: the reachability analysis behind `box_only_if_needed` (C20: recursive grammars still compile).
pub fn cycle_grammars() -> Vec<(String, Vec<RuleSpec>, bool)> {
    let mut out = vec![];
    for n in 1..=6usize {
        for (oname, order) in [("f", 0), ("r", 1), ("o", 2)] {
            for (lead, trail) in [(false, false), (true, false), (false, true), (true, true)] {
                let mut cyc: Vec<RuleSpec> = (0..n)
                    .map(|i| {
                        let next = (i + 1) % n;
                        if n == 1 {
                            RuleSpec::new("r0", 'N', "\"(\" ~ r0? ~ \")\"")
                        } else {
                            RuleSpec::new(&format!("r{}", i), 'N', &format!("\"a\" ~ r{}?", next))
                        }
                    })
                    .collect();
                match order {
                    1 => cyc.reverse(),
                    2 => cyc.rotate_left(1.min(n - 1)),
                    _ => {}
                }
                let mut rules = vec![];
                if lead {
                    rules.push(RuleSpec::new("lead", 'N', "\"l\""));
                }
                rules.extend(cyc);
                if trail {
                    rules.push(RuleSpec::new("tail", 'N', "\"t\""));
                }
                let quick = matches!(n, 1 | 2 | 4 | 5) && order != 1;
                out.push((format!("cyc{}{}{}{}", n, oname, if lead { "l" } else { "" }, if trail { "t" } else { "" }), rules, quick));
            }
        }
    }
    out
}

/// Counted repetitions around stack operations, with and without pest's optimizer (the only way the
/// derive emits RepMinMax / RepMin / RepExact nodes): explored by the stack lenses from pre-populated stacks.
fn optstack(out: &mut Vec<GSpec>) {
    let bodies = [
        "(PUSH(\"a\") ~ \"b\"){1,3} ~ PEEK_ALL",
        "(PUSH(\"a\") ~ \"b\"){,2} ~ POP?",
        "(POP ~ \"a\"){,2} ~ PEEK_ALL",
        "(POP ~ \"a\"){1,2} ~ \"b\"?",
        "(DROP ~ \"a\"){1,3}",
        "(DROP ~ PUSH(\"b\") ~ \"a\"){,2} ~ PEEK",
        "(PUSH(\"a\") ~ \"a\"){2} ~ POP ~ POP",
        "(PUSH(\"b\")? ~ \"a\"){2,3} ~ PEEK_ALL",
        "(&(POP ~ \"a\") ~ \"b\"){1,2}",
        "((PUSH(\"a\") ~ \"b\"){1,2} | \"a\"){,2} ~ PEEK_ALL",
        "(\"a\" ~ POP_ALL){,2}",
        "(PEEK ~ \"b\"){2,}",
        "\"a\"{1,3} ~ \"b\"{,2}",
        "(\"a\" | \"ab\"){2,3} ~ \"b\"?",
    ];
    let mut rules = vec![];
    for (k, b) in bodies.iter().enumerate() {
        rules.push(RuleSpec::new(&format!("e{}", k), 'N', b));
        rules.push(RuleSpec::new(&format!("a{}", k), 'A', b));
        rules.push(RuleSpec::new(&format!("c{}", k), 'C', b));
    }
    assert!(valid(&rules));
    for (vi, opts) in [vec!["no_warnings = false"], vec!["pest_optimizer = false"], vec!["pest_optimizer = false", "box_only_if_needed"]].iter().enumerate() {
        out.push(GSpec {
            id: format!("optstack_{}", vi),
            family: "optstack".into(),
            quick: vi < 2,
            rules: rules.clone(),
            alphabet: "ab".into(),
            max_len: 6,
            max_len_thorough: 8,
            init_alphabet: strs(&["a", "b"]),
            init_depth: 2,
            options: opts.iter().map(|s| s.to_string()).collect(),
            base_id: if vi == 0 { String::new() } else { "optstack_0".into() },
            all_forms: vi == 1,
            ..Default::default()
        });
    }
    // the same with implicit skipping: only the default configuration is comparable with pest here
    let mut rules2 = vec![RuleSpec::helper("WHITESPACE", 'S', "\" \"")];
    for (k, b) in ["\"a\"{1,3}", "(\"a\" ~ \"b\"){,2} ~ \"a\"?", "(\"a\" | \"b\"){2,3}", "(PUSH(\"a\") ~ \"b\"){1,2} ~ POP", "\"a\"{2} ~ \"b\"{1,}"].iter().enumerate() {
        rules2.push(RuleSpec::new(&format!("e{}", k), 'N', b));
        rules2.push(RuleSpec::new(&format!("a{}", k), 'A', b));
        rules2.push(RuleSpec::new(&format!("x{}", k), 'X', b));
    }
    assert!(valid(&rules2));
    out.push(GSpec {
        id: "optstack_ws".into(),
        family: "optstack".into(),
        quick: true,
        rules: rules2,
        alphabet: "ab ".into(),
        max_len: 6,
        max_len_thorough: 7,
        init_alphabet: strs(&["a"]),
        init_depth: 1,
        ..Default::default()
    });
}

fn cycles(out: &mut Vec<GSpec>) {
    for (name, rules, quick) in cycle_grammars() {
        assert!(valid(&rules), "{}", name);
        let n1 = name.starts_with("cyc1");
        for (vi, opts) in [vec!["no_warnings = false"], vec!["box_only_if_needed"], vec!["box_only_if_needed", "pest_optimizer = false"]].iter().enumerate() {
            out.push(GSpec {
                id: format!("options_{}_{}", name, vi),
                family: "options".into(),
                quick: quick && vi < 2,
                rules: rules.clone(),
                alphabet: if n1 { "()".into() } else { "alt".into() },
                max_len: if n1 { 8 } else { 6 },
                max_len_thorough: if n1 { 10 } else { 7 },
                options: opts.iter().map(|s| s.to_string()).collect(),
                base_id: if vi == 0 { String::new() } else { format!("options_{}_0", name) },
                ..Default::default()
            });
        }
    }
}

pub fn all(out: &mut Vec<GSpec>) {
    let only = std::env::var("GRAMGEN_ONLY").ok();
    let want = |f: &str| only.as_deref().map_or(true, |o| o.split(',').any(|x| x == f));
    if want("expr") {
        expr(out);
    }
    if want("exprx") {
        exprx(out);
    }
    if want("kind") {
        kind(out);
    }
    if want("stack") {
        stack(out);
    }
    if want("slice") {
        slice(out);
    }
    if want("utf8") {
        utf8(out);
        utf8_esc(out);
        utf8_ci(out);
    }
    if want("tree") {
        tree(out);
    }
    if want("mention") {
        mention(out);
    }
    if want("arity") {
        arity(out);
    }
    if want("sub") {
        sub(out);
        sub_ci(out);
        sub_cip(out);
    }
    if want("unicode") {
        unicode(out);
    }
    if want("options") {
        options(out);
        cycles(out);
    }
    if want("optstack") {
        optstack(out);
    }
    if want("plus") {
        plus(out);
    }
    // the subject's `grammar-extras` configuration (pest keeps `e+` as one node): a slice of the corpus again
    let mut ge: Vec<GSpec> = vec![];
    for s in out.iter() {
        let pick = match s.family.as_str() {
            "expr" => s.id == "expr_ws_q0" || s.id == "expr_wc_q0" || (!s.quick && s.id.ends_with("t0")),
            "kind" => s.id == "kind_ws_b0" || s.id == "kind_both_b3" || (!s.quick && s.id.ends_with("_b2")),
            "tree" => true,
            "stack" => s.id == "stack_q0",
            "options" => s.id.starts_with("options_ws_") || s.id.starts_with("options_cnt_"),
            "mention" => s.id == "mention_q0",
            "plus" => s.options.is_empty(),
            "arity" => s.id == "arity_3" || s.id == "arity_13",
            _ => false,
        };
        if pick {
            let mut x = s.clone();
            x.id = format!("{}_ge", s.id);
            x.family = format!("{}_ge", s.family);
            x.extras = true;
            if !x.base_id.is_empty() {
                x.base_id = format!("{}_ge", x.base_id);
            }
            ge.push(x);
        }
    }
    // the translation from the unoptimized AST (`pest_optimizer = false`): a slice of the corpus once more
    let mut raw: Vec<GSpec> = vec![];
    for s in out.iter() {
        if !s.options.is_empty() || s.extras {
            continue;
        }
        let pick = match s.family.as_str() {
            "expr" => ["expr_none_q0", "expr_none_q1", "expr_ws_q1", "expr_none_t0", "expr_ws_t1"].contains(&s.id.as_str()),
            "exprx" => s.quick && s.id.ends_with("0"),
            "kind" => s.id == "kind_ws_b0" || s.id == "kind_both_b3" || s.id == "kind_none_b1",
            "stack" => s.id == "stack_q0" || s.id == "stack_q1" || s.id == "stack_t0",
            "tree" => s.id == "tree_1" || s.id == "tree_2",
            "sub" => true,
            "utf8" => s.id == "utf8_q0" || s.id == "utf8_ws0",
            "slice" => s.id == "slice_ctx" || s.id == "slice_q0",
            _ => false,
        };
        if pick {
            let mut x = s.clone();
            x.id = format!("{}_raw", s.id);
            x.family = format!("{}_raw", s.family);
            x.options = vec!["pest_optimizer = false".to_string()];
            if s.getters {
                x.options.push("emit_rule_reference".to_string());
            }
            raw.push(x);
        }
    }
    ge.extend(raw);
    // node tags (grammar-extras only): with the default options a tag is transparent for the getters
    if want("mention") {
        let mut rules = vec![
            RuleSpec::helper("x", 'N', "\"a\""),
            RuleSpec::helper("xs", 'S', "\"a\""),
            RuleSpec::helper("xa", 'A', "\"a\""),
            RuleSpec::helper("y", 'N', "\"b\""),
        ];
        let shapes = [
            "#t = X",
            "(#t = X)?",
            "#t = X*",
            "(#t = X)* ~ y?",
            "X ~ #t = (X ~ y) ~ \"b\"?",
            "(#t = X | y) ~ X*",
            "#t = (X | y)* ~ X?",
            "(#a = X ~ #b = X)*",
            "&(#t = X) ~ ANY",
            "#t = (X?) ~ \"b\"",
            "#t = X | #u = X ~ \"b\"",
            "PUSH(#t = X) ~ y?",
            "#o = (X ~ #i = (X | y))",
            "!(#t = X) ~ y ~ X?",
            "(#t = (X ~ y))? ~ X",
        ];
        let mut k = 0;
        for sh in shapes {
            // (pest rejects a tag directly on a reference to a silent rule)
            for x in ["x", "xa"] {
                rules.push(RuleSpec::new(&format!("m{}", k), if k % 5 == 4 { 'S' } else { 'N' }, &sh.replace('X', x)));
                k += 1;
            }
        }
        for sh in ["#t = (xs ~ y) ~ xs?", "(#t = (xs | y))* ~ x?", "x ~ #t = (xs? ~ x)"] {
            rules.push(RuleSpec::new(&format!("m{}", k), 'N', sh));
            k += 1;
        }
        ge.push(GSpec {
            id: "mention_tag_ge".into(),
            family: "mention_ge".into(),
            quick: true,
            rules,
            alphabet: "ab".into(),
            max_len: 6,
            max_len_thorough: 8,
            getters: true,
            extras: true,
            tagged: true,
            ..Default::default()
        });
    }
    out.extend(ge);
}

//! Grammar families (DESIGN.md section 4).  Every family is enumerated completely up to its
//! structural bound and ordered simplest-first; members that pest's validator rejects are dropped
//! here (they feed the negative corpus of C11 in `genrun`).

use crate::{GSpec, RuleSpec};

fn valid(rules: &[RuleSpec]) -> bool {
    let mut s = String::new();
    for r in rules {
        s.push_str(&r.line());
        s.push('\n');
    }
    pest_meta::parse_and_optimize(&s).is_ok()
}

fn valid_body(kind: char, body: &str, ctx: &[RuleSpec]) -> bool {
    let mut v = ctx.to_vec();
    v.push(RuleSpec::new("cand__", kind, body));
    valid(&v)
}

pub const UNARY: &[&str] = &["?", "*", "+", "{2}", "{1,2}", "{,2}", "{2,}", "&", "!", "PUSH"];

pub fn un(op: &str, e: &str) -> String {
    match op {
        "&" | "!" => format!("{}({})", op, e),
        "PUSH" => format!("PUSH({})", e),
        _ => format!("({}){}", e, op),
    }
}

pub fn bin(op: &str, l: &str, r: &str) -> String {
    format!("({}) {} ({})", l, op, r)
}

fn depth1(ts: &[String]) -> Vec<String> {
    let mut v = vec![];
    for op in UNARY {
        for t in ts {
            v.push(un(op, t));
        }
    }
    for op in ["~", "|"] {
        for l in ts {
            for r in ts {
                v.push(bin(op, l, r));
            }
        }
    }
    v
}

fn strs(v: &[&str]) -> Vec<String> {
    v.iter().map(|s| s.to_string()).collect()
}

struct SkipCfg {
    name: &'static str,
    rules: Vec<RuleSpec>,
    alphabet: &'static str,
    len_q: usize,
    len_t: usize,
}

fn skip_cfgs() -> Vec<SkipCfg> {
    vec![
        SkipCfg {
            name: "none",
            rules: vec![],
            alphabet: "abAx",
            len_q: 5,
            len_t: 6,
        },
        SkipCfg {
            name: "ws",
            rules: vec![RuleSpec::helper("WHITESPACE", 'S', "\" \"")],
            alphabet: "abA ",
            len_q: 5,
            len_t: 6,
        },
        SkipCfg {
            name: "wc",
            rules: vec![
                RuleSpec::helper("WHITESPACE", 'S', "\" \""),
                RuleSpec::helper("COMMENT", 'N', "\"<\" ~ (!\">\" ~ ANY)* ~ \">\""),
            ],
            alphabet: "ab <>",
            len_q: 5,
            len_t: 6,
        },
    ]
}

/// F-expr: systematic expressions.
fn expr(out: &mut Vec<GSpec>) {
    let t1 = strs(&["\"a\"", "\"b\"", "\"ab\"", "^\"a\"", "'a'..'b'", "ANY"]);
    let t2 = strs(&["\"a\"", "\"b\""]);
    let mut d1: Vec<String> = t1.clone();
    d1.extend(depth1(&t1));
    let d1_2 = depth1(&t2);
    let mut le1_2 = t2.clone();
    le1_2.extend(d1_2.clone());
    let mut d2: Vec<String> = vec![];
    for op in UNARY {
        for e in &d1_2 {
            d2.push(un(op, e));
        }
    }
    for op in ["~", "|"] {
        for (li, l) in le1_2.iter().enumerate() {
            for (ri, r) in le1_2.iter().enumerate() {
                if li >= t2.len() || ri >= t2.len() {
                    d2.push(bin(op, l, r));
                }
            }
        }
    }
    for cfg in skip_cfgs() {
        let twins = cfg.name != "wc";
        let ok1: Vec<&String> = d1.iter().filter(|e| valid_body('N', e, &cfg.rules)).collect();
        let ok2: Vec<&String> = d2.iter().filter(|e| valid_body('N', e, &cfg.rules)).collect();
        eprintln!("gramgen: expr/{}: depth<=1 {} of {}, depth 2 {} of {}", cfg.name, ok1.len(), d1.len(), ok2.len(), d2.len());
        // quick slice of depth 2: every k-th member, 150 of them
        let step = (ok2.len() / 150).max(1);
        let mut quick_list: Vec<&String> = ok1.clone();
        let mut rest: Vec<&String> = vec![];
        if cfg.name != "wc" {
            for (i, e) in ok2.iter().enumerate() {
                if i % step == 0 && quick_list.len() < ok1.len() + 150 {
                    quick_list.push(e);
                } else {
                    rest.push(e);
                }
            }
        } else {
            rest = ok2.clone();
        }
        let per = 80;
        for (quick, list) in [(true, quick_list), (false, rest)] {
            for (ci, chunk) in list.chunks(per).enumerate() {
                let mut rules = cfg.rules.clone();
                for (k, e) in chunk.iter().enumerate() {
                    rules.push(RuleSpec::new(&format!("e{}", k), 'N', e));
                    if twins {
                        rules.push(RuleSpec::new(&format!("a{}", k), 'A', e));
                    }
                }
                out.push(GSpec {
                    id: format!("expr_{}_{}{}", cfg.name, if quick { "q" } else { "t" }, ci),
                    family: "expr".into(),
                    quick,
                    rules,
                    alphabet: cfg.alphabet.into(),
                    max_len: cfg.len_q,
                    max_len_thorough: cfg.len_t,
                    ..Default::default()
                });
            }
        }
    }
}

/// Extras at depth <= 1: special terminals, stack built-ins, references to rules of each kind.
fn exprx(out: &mut Vec<GSpec>) {
    let helpers = vec![
        RuleSpec::helper("rn", 'N', "\"a\" ~ \"b\""),
        RuleSpec::helper("rs", 'S', "\"a\" ~ \"b\""),
        RuleSpec::helper("ra", 'A', "\"a\" ~ \"b\""),
        RuleSpec::helper("rc", 'C', "\"a\" ~ \"b\""),
        RuleSpec::helper("rx", 'X', "\"a\" ~ \"b\""),
    ];
    let specials = strs(&[
        "\"\"",
        "SOI",
        "EOI",
        "ASCII_DIGIT",
        "ASCII_NONZERO_DIGIT",
        "ASCII_BIN_DIGIT",
        "ASCII_OCT_DIGIT",
        "ASCII_ALPHA_LOWER",
        "ASCII_ALPHA_UPPER",
        "ASCII_ALPHA",
        "ASCII_HEX_DIGIT",
        "ASCII_ALPHANUMERIC",
        "ASCII",
        "PEEK",
        "POP",
        "DROP",
        "PEEK_ALL",
        "POP_ALL",
        "PEEK[0..1]",
        "PEEK[-1..]",
        "PEEK[..]",
        "PEEK[1..]",
        "rn",
        "rs",
        "ra",
        "rc",
        "rx",
    ]);
    let mut forms: Vec<String> = vec![];
    for s in &specials {
        forms.push(s.clone());
        for op in UNARY {
            forms.push(un(op, s));
        }
        forms.push(format!("\"a\" ~ {}", s));
        forms.push(format!("{} ~ \"a\"", s));
        forms.push(format!("{} | \"a\"", s));
        forms.push(format!("\"a\" | {}", s));
        forms.push(format!("PUSH(\"a\") ~ {}", s));
        forms.push(format!("PUSH('a'..'b') ~ {} ~ {}", s, s));
        forms.push(format!("PUSH(\"a\") ~ PUSH(\"b\") ~ {}", s));
        forms.push(format!("PUSH(\"a\")? ~ {}", s));
    }
    for (cname, skip, alphabet) in [
        ("none", vec![], "ab1A"),
        ("ws", vec![RuleSpec::helper("WHITESPACE", 'S', "\" \"")], "ab1 "),
    ] {
        let mut ctx = helpers.clone();
        ctx.extend(skip.clone());
        let ok: Vec<&String> = forms.iter().filter(|e| valid_body('N', e, &ctx)).collect();
        eprintln!("gramgen: exprx/{}: {} of {}", cname, ok.len(), forms.len());
        for (ci, chunk) in ok.chunks(90).enumerate() {
            let mut rules = ctx.clone();
            for (k, e) in chunk.iter().enumerate() {
                rules.push(RuleSpec::new(&format!("e{}", k), 'N', e));
                rules.push(RuleSpec::new(&format!("a{}", k), 'A', e));
            }
            out.push(GSpec {
                id: format!("exprx_{}_{}", cname, ci),
                family: "exprx".into(),
                quick: true,
                rules,
                alphabet: alphabet.into(),
                max_len: 5,
                max_len_thorough: 6,
                ..Default::default()
            });
        }
    }
    // NEWLINE
    let mut nl = vec![];
    for f in ["NEWLINE", "NEWLINE*", "NEWLINE ~ \"a\"", "\"a\" ~ NEWLINE", "(!NEWLINE ~ ANY)*", "NEWLINE | \"a\"", "(\"a\" | NEWLINE)+", "&NEWLINE ~ ANY", "NEWLINE{2}"] {
        nl.push(f.to_string());
    }
    let mut rules = vec![];
    for (k, e) in nl.iter().enumerate() {
        rules.push(RuleSpec::new(&format!("e{}", k), 'N', e));
        rules.push(RuleSpec::new(&format!("a{}", k), 'A', e));
    }
    assert!(valid(&rules));
    out.push(GSpec {
        id: "exprx_nl".into(),
        family: "exprx".into(),
        quick: true,
        rules,
        alphabet: "a\n\r".into(),
        max_len: 5,
        max_len_thorough: 7,
        ..Default::default()
    });
}

/// F-kind: every nesting (depth 3) of the five rule kinds around sequences and repetitions.
fn kind(out: &mut Vec<GSpec>) {
    let bodies = ["\"a\" ~ \"b\"", "\"a\"*", "\"a\"+", "\"a\" ~ \"b\"*", "(\"a\" ~ \"b\")*", "\"a\"? ~ \"b\""];
    let kinds = ['N', 'S', 'A', 'C', 'X'];
    struct Cfg {
        name: String,
        skip: Vec<RuleSpec>,
        quick_bodies: Vec<usize>,
        thorough_bodies: Vec<usize>,
    }
    let mut cfgs = vec![
        Cfg {
            name: "ws".into(),
            skip: vec![RuleSpec::helper("WHITESPACE", 'N', "\" \"")],
            quick_bodies: vec![0, 4],
            thorough_bodies: vec![1, 2, 3, 5],
        },
        Cfg {
            name: "both".into(),
            skip: vec![RuleSpec::helper("WHITESPACE", 'S', "\" \""), RuleSpec::helper("COMMENT", 'N', "\"#\"")],
            quick_bodies: vec![3],
            thorough_bodies: vec![0, 1, 2, 4, 5],
        },
        Cfg {
            name: "cm".into(),
            skip: vec![RuleSpec::helper("COMMENT", 'S', "\"#\"")],
            quick_bodies: vec![],
            thorough_bodies: vec![0, 1, 2, 3, 4, 5],
        },
        Cfg {
            name: "none".into(),
            skip: vec![],
            quick_bodies: vec![],
            thorough_bodies: vec![0, 3, 4],
        },
    ];
    // WHITESPACE / COMMENT declared with each kind, with a body whose atomic matching matters
    for k in kinds {
        cfgs.push(Cfg {
            name: format!("wsk{}", k),
            skip: vec![RuleSpec::helper("WHITESPACE", k, "\"#\" ~ \" \"")],
            quick_bodies: if k == 'C' || k == 'X' { vec![0] } else { vec![] },
            thorough_bodies: if k == 'C' || k == 'X' { vec![4] } else { vec![0, 4] },
        });
        cfgs.push(Cfg {
            name: format!("cmk{}", k),
            skip: vec![RuleSpec::helper("WHITESPACE", 'S', "\" \""), RuleSpec::helper("COMMENT", k, "\"#\" ~ \"#\"")],
            quick_bodies: vec![],
            thorough_bodies: vec![0],
        });
    }
    for cfg in cfgs {
        for (quick, bl) in [(true, &cfg.quick_bodies), (false, &cfg.thorough_bodies)] {
            for &b in bl.iter() {
                let mut rules = cfg.skip.clone();
                for k3 in kinds {
                    rules.push(RuleSpec::new(&format!("i{}", k3), k3, bodies[b]));
                }
                for k2 in kinds {
                    for k3 in kinds {
                        rules.push(RuleSpec::new(&format!("m{}{}", k2, k3), k2, &format!("i{} ~ i{}", k3, k3)));
                    }
                }
                for k1 in kinds {
                    for k2 in kinds {
                        for k3 in kinds {
                            rules.push(RuleSpec::new(&format!("t{}{}{}", k1, k2, k3), k1, &format!("m{}{}", k2, k3)));
                        }
                    }
                }
                if !valid(&rules) {
                    eprintln!("gramgen: kind/{} body {} invalid, dropped", cfg.name, b);
                    continue;
                }
                out.push(GSpec {
                    id: format!("kind_{}_b{}", cfg.name, b),
                    family: "kind".into(),
                    quick,
                    rules,
                    alphabet: "ab #".into(),
                    max_len: 6,
                    max_len_thorough: 7,
                    atom0: true,
                    ..Default::default()
                });
            }
        }
    }
}

/// F-stack: stack operations inside choices, optionals, repetitions and predicates.
fn stack(out: &mut Vec<GSpec>) {
    let ops_q = ["PUSH(\"a\")", "POP", "DROP", "PUSH(\"a\") ~ POP"];
    let ops_t = ["PUSH(\"b\" | \"\")", "POP_ALL", "PUSH(\"b\") ~ DROP", "PUSH(\"a\") ~ PUSH(\"b\")", "PEEK ~ POP"];
    let wrap = |k: usize, body: &str| -> String {
        match k {
            0 => format!("(({}) | \"a\")", body),
            1 => format!("(({}) | \"\")", body),
            2 => format!("({})?", body),
            3 => format!("({})*", body),
            4 => format!("({})+", body),
            5 => format!("({}){{1,2}}", body),
            6 => format!("&({})", body),
            _ => format!("!({})", body),
        }
    };
    let readers_q = ["", " ~ PEEK_ALL"];
    let readers_t = [" ~ PEEK", " ~ POP", " ~ POP_ALL", " ~ PEEK[0..1]", " ~ PEEK[-1..]", " ~ DROP ~ DROP"];
    let bodies = |ops: &[&str]| -> Vec<String> {
        let mut v = vec![];
        for op in ops {
            for t in ["\"a\"", "\"b\""] {
                v.push(format!("{} ~ {}", op, t));
                v.push(format!("{} ~ {}", t, op));
            }
        }
        v
    };
    let mut quick_exprs: Vec<String> = vec![];
    let mut thorough_exprs: Vec<String> = vec![];
    for body in bodies(&ops_q) {
        for k in 0..8 {
            for r in readers_q {
                quick_exprs.push(format!("{}{}", wrap(k, &body), r));
            }
            for r in readers_t {
                thorough_exprs.push(format!("{}{}", wrap(k, &body), r));
            }
        }
    }
    for body in bodies(&ops_t) {
        for k in 0..8 {
            for r in readers_q.iter().chain(readers_t.iter()) {
                thorough_exprs.push(format!("{}{}", wrap(k, &body), r));
            }
        }
    }
    // nesting depth 2: K inside K
    for (oi, op) in ["PUSH(\"a\")", "POP", "DROP"].iter().enumerate() {
        let body = format!("{} ~ \"b\"", op);
        for ki in 0..8 {
            let inner = wrap(ki, &body);
            for ko in [0usize, 2, 3, 6, 7] {
                let e = wrap(ko, &format!("{} ~ \"a\"", inner));
                for r in ["", " ~ PEEK_ALL", " ~ POP_ALL"] {
                    if r.is_empty() && oi == 0 {
                        quick_exprs.push(format!("{}{}", e, r));
                    } else {
                        thorough_exprs.push(format!("{}{}", e, r));
                    }
                }
            }
        }
    }
    // through rules: the stack operation sits in another rule
    let helpers = vec![
        RuleSpec::helper("hp", 'N', "PUSH(\"a\") ~ \"b\""),
        RuleSpec::helper("hq", 'S', "POP ~ \"b\""),
        RuleSpec::helper("hd", 'A', "DROP ~ \"b\""),
    ];
    for h in ["hp", "hq", "hd"] {
        for k in 0..8 {
            quick_exprs.push(format!("{} ~ PEEK_ALL", wrap(k, h)));
        }
    }
    for (quick, list) in [(true, quick_exprs), (false, thorough_exprs)] {
        let ok: Vec<&String> = list.iter().filter(|e| valid_body('N', e, &helpers)).collect();
        eprintln!("gramgen: stack/{}: {} of {}", if quick { "quick" } else { "thorough" }, ok.len(), list.len());
        for (ci, chunk) in ok.chunks(170).enumerate() {
            let mut rules = helpers.clone();
            for (k, e) in chunk.iter().enumerate() {
                rules.push(RuleSpec::new(&format!("e{}", k), 'N', e));
            }
            out.push(GSpec {
                id: format!("stack_{}{}", if quick { "q" } else { "t" }, ci),
                family: "stack".into(),
                quick,
                rules,
                alphabet: "ab".into(),
                max_len: 6,
                max_len_thorough: 7,
                init_alphabet: strs(&["a", "b", ""]),
                init_depth: 2,
                ..Default::default()
            });
        }
    }
}

/// Slice family: PUSH(x1) ~ .. ~ PUSH(xd) ~ PEEK[a..b].
fn slice(out: &mut Vec<GSpec>) {
    for (quick, dmax, lo, hi) in [(true, 3usize, -4i32, 4i32), (false, 4, -6, 6)] {
        let mut exprs = vec![];
        for d in 0..=dmax {
            for a in lo..=hi {
                let mut ends: Vec<Option<i32>> = vec![None];
                ends.extend((lo..=hi).map(Some));
                for b in ends {
                    if !quick && d <= 3 && a >= -4 && a <= 4 && b.map_or(true, |b| (-4..=4).contains(&b)) {
                        continue; // already in the quick corpus
                    }
                    let mut e = String::new();
                    for _ in 0..d {
                        e.push_str("PUSH('a'..'b') ~ ");
                    }
                    match b {
                        Some(b) => e.push_str(&format!("PEEK[{}..{}]", a, b)),
                        None => e.push_str(&format!("PEEK[{}..]", a)),
                    }
                    exprs.push(e);
                }
            }
        }
        let ok: Vec<&String> = exprs.iter().filter(|e| valid_body('N', e, &[])).collect();
        eprintln!("gramgen: slice/{}: {} of {}", if quick { "quick" } else { "thorough" }, ok.len(), exprs.len());
        for (ci, chunk) in ok.chunks(170).enumerate() {
            let mut rules = vec![];
            for (k, e) in chunk.iter().enumerate() {
                rules.push(RuleSpec::new(&format!("e{}", k), 'N', e));
            }
            out.push(GSpec {
                id: format!("slice_{}{}", if quick { "q" } else { "t" }, ci),
                family: "slice".into(),
                quick,
                rules,
                alphabet: "ab".into(),
                max_len: 6,
                max_len_thorough: 8,
                init_alphabet: strs(&["a", "b", "ab", ""]),
                init_depth: if quick { 1 } else { 2 },
                ..Default::default()
            });
        }
    }
    // stack built-ins in atomic and non-atomic context, PUSH of a skip-containing expression
    let skip = vec![RuleSpec::helper("WHITESPACE", 'S', "\" \"")];
    let mut rules = skip.clone();
    let bodies = [
        "PUSH(\"a\" ~ \"b\") ~ PEEK",
        "PUSH(\"a\" ~ \"b\") ~ POP",
        "PUSH(\"a\" ~ \"b\") ~ \"a\" ~ PEEK_ALL",
        "PUSH(\"a\"+) ~ PUSH(\"b\") ~ PEEK[0..1] ~ PEEK[1..2]",
        "PUSH(\"a\") ~ PUSH(\"b\") ~ POP_ALL",
        "PUSH(\"a\") ~ DROP ~ \"b\"",
        "PUSH(\"a\"*) ~ \"b\" ~ PEEK",
        "PUSH(\"a\" ~ \"b\"*) ~ PEEK[-1..]",
    ];
    for (k, b) in bodies.iter().enumerate() {
        for kd in ['N', 'A', 'C', 'X'] {
            rules.push(RuleSpec::new(&format!("s{}{}", kd, k), kd, b));
        }
    }
    assert!(valid(&rules));
    out.push(GSpec {
        id: "slice_ctx".into(),
        family: "slice".into(),
        quick: true,
        rules,
        alphabet: "ab ".into(),
        max_len: 6,
        max_len_thorough: 8,
        init_alphabet: strs(&["a", "b"]),
        init_depth: 1,
        ..Default::default()
    });
}

/// F-utf8: multi-byte terminals, all input forms.
fn utf8(out: &mut Vec<GSpec>) {
    let ts = strs(&["\"é\"", "\"a€\"", "^\"é\"", "^\"a€\"", "'a'..'€'", "ANY", "NEWLINE", "\"😀\"", "LETTER", "CURRENCY_SYMBOL"]);
    let mut q: Vec<String> = vec![];
    let mut t: Vec<String> = vec![];
    for x in &ts {
        q.push(x.clone());
        q.push(format!("({})?", x));
        q.push(format!("({})*", x));
        q.push(format!("&({}) ~ ANY", x));
        q.push(format!("!({}) ~ ANY", x));
        q.push(format!("SOI ~ {}", x));
        q.push(format!("{} ~ EOI", x));
        q.push(format!("PUSH({}) ~ PEEK", x));
        t.push(format!("({})+", x));
        t.push(format!("({}){{2}}", x));
        t.push(format!("PUSH({}) ~ POP", x));
        t.push(format!("(!({}) ~ ANY)*", x));
    }
    for (i, l) in ts.iter().enumerate() {
        for (j, r) in ts.iter().enumerate() {
            let target = if (i + j) % 4 == 0 { &mut q } else { &mut t };
            target.push(format!("{} ~ {}", l, r));
            target.push(format!("{} | {}", l, r));
        }
    }
    let ws = vec![RuleSpec::helper("WHITESPACE", 'S', "\"é\"")];
    for (name, ctx, quick, list) in [("q", vec![], true, &q), ("t", vec![], false, &t), ("ws", ws, true, &q)] {
        let ok: Vec<&String> = list.iter().filter(|e| valid_body('N', e, &ctx)).collect();
        eprintln!("gramgen: utf8/{}: {} of {}", name, ok.len(), list.len());
        let per = 60;
        for (ci, chunk) in ok.chunks(per).enumerate() {
            let mut rules = ctx.clone();
            for (k, e) in chunk.iter().enumerate() {
                rules.push(RuleSpec::new(&format!("e{}", k), 'N', e));
            }
            if name != "ws" || ci == 0 {
                // skip-until (only the optimizer of atomic rules produces it)
                rules.push(RuleSpec::new("su0", 'A', "(!(\"€a\" | \"b\") ~ ANY)*"));
                rules.push(RuleSpec::new("su1", 'A', "(!\"é\" ~ ANY)* ~ \"é\""));
                rules.push(RuleSpec::new("su2", 'A', "\"a\" ~ (!(\"a€\") ~ ANY)* ~ ANY?"));
                rules.push(RuleSpec::new("su3", 'N', "su0 ~ ANY"));
            }
            if name == "ws" && ci > 0 {
                break;
            }
            out.push(GSpec {
                id: format!("utf8_{}{}", name, ci),
                family: "utf8".into(),
                quick,
                rules,
                alphabet: "aé€😀\r\n".into(),
                max_len: 3,
                max_len_thorough: 4,
                all_forms: true,
                ..Default::default()
            });
        }
    }
}

pub fn all(out: &mut Vec<GSpec>) {
    let only = std::env::var("GRAMGEN_ONLY").ok();
    let want = |f: &str| only.as_deref().map_or(true, |o| o.split(',').any(|x| x == f));
    if want("expr") {
        expr(out);
    }
    if want("exprx") {
        exprx(out);
    }
    if want("kind") {
        kind(out);
    }
    if want("stack") {
        stack(out);
    }
    if want("slice") {
        slice(out);
    }
    if want("utf8") {
        utf8(out);
    }
}

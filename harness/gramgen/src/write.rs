//! Writes shard crates.

use crate::GSpec;
use refpeg::grammar::{Ex, Grammar, Kind, Node, Target};
use std::collections::{BTreeMap, BTreeSet};
use std::fmt::Write as _;
use std::path::Path;

const RULES_PER_SHARD: usize = 180;

fn write_if_changed(path: &Path, content: &str) -> bool {
    if let Ok(old) = std::fs::read_to_string(path) {
        if old == content {
            return false;
        }
    }
    if let Some(p) = path.parent() {
        std::fs::create_dir_all(p).unwrap();
    }
    std::fs::write(path, content).unwrap();
    true
}

fn raw(s: &str) -> String {
    format!("r####\"{}\"####", s)
}

fn uses_builtin(g: &Grammar, name: &str) -> bool {
    fn walk(n: &Node, name: &str) -> bool {
        match &n.ex {
            Ex::Ident(id, Target::Builtin(_)) => id == name,
            Ex::PosPred(e) | Ex::NegPred(e) | Ex::Opt(e) | Ex::Rep(e) | Ex::RepOnce(e) | Ex::Push(e) | Ex::Restore(e) => {
                walk(e, name)
            }
            Ex::Seq(v) | Ex::Choice(v) => v.iter().any(|x| walk(x, name)),
            _ => false,
        }
    }
    g.rules.iter().any(|r| walk(&r.body, name))
}

/// Names mentioned by a rule's own expression outside negative predicates (getter names).
fn mentions(n: &Node, out: &mut BTreeSet<String>) {
    match &n.ex {
        Ex::Ident(id, _) => {
            out.insert(id.clone());
        }
        Ex::NegPred(_) => {}
        Ex::PosPred(e) | Ex::Opt(e) | Ex::Rep(e) | Ex::RepOnce(e) | Ex::Push(e) | Ex::Restore(e) => mentions(e, out),
        Ex::Seq(v) | Ex::Choice(v) => {
            for x in v {
                mentions(x, out)
            }
        }
        _ => {}
    }
}

/// Accessor observations for the arity family (C17).
fn acc_code(_s: &GSpec, g: &Grammar, ri: usize, ty1: &str, out: &mut String) {
    let body = &g.rules[ri].body;
    let _ = writeln!(out, "            acc: Some({{ fn run<'i>(req: &::obs::Req<'i>) -> Option<::obs::AccObs> {{");
    let _ = writeln!(out, "                use t::generics;");
    let _ = writeln!(out, "                let node: {} = ::obs::parse_req::<'i, t::Rule, {}>(req)?;", ty1, ty1);
    let _ = writeln!(out, "                let c = ::std::ops::Deref::deref(&node);");
    let _ = writeln!(out, "                let mut o = ::obs::AccObs::default();");
    match &body.ex {
        Ex::Choice(alts) => {
            let n = alts.len();
            let _ = writeln!(out, "                o.kind = \"choice\";");
            let acc: Vec<String> = (0..n).map(|i| format!("c._{}().map(|x| ::obs::sp(&x.span))", i)).collect();
            let _ = writeln!(out, "                o.accessors = vec![{}];", acc.join(", "));
            let mut chain = String::from("c.if_then(|_| 0usize)");
            for i in 1..n - 1 {
                chain.push_str(&format!(".else_if(|_| {}usize)", i));
            }
            chain.push_str(&format!(".else_then(|_| {}usize)", n - 1));
            let _ = writeln!(out, "                o.chain = Some({});", chain);
            let arms: Vec<String> = (0..n).map(|i| format!("x{} => {{ let _ = x{}; {}usize }}", i, i, i)).collect();
            let _ = writeln!(out, "                o.match_choices = Some(::pest_typed_derive::match_choices!( c {{ {} }} ));", arms.join(" "));
        }
        Ex::Seq(items) => {
            let n = items.len();
            let _ = writeln!(out, "                o.kind = \"seq\";");
            let gm: Vec<String> = (0..n).map(|i| format!("::obs::sp(&m.{}.span)", i)).collect();
            let _ = writeln!(out, "                {{ let m = c.get_matched(); o.get_matched = vec![{}]; }}", gm.join(", "));
            let _ = writeln!(out, "                {{ let m = c.as_ref(); o.as_ref = vec![{}]; }}", gm.join(", "));
            let _ = writeln!(out, "                {{ let m = c.clone().into_matched(); o.into_matched = vec![{}]; }}", gm.join(", "));
            let ga: Vec<String> = (0..n).map(|i| format!("::obs::sp(&a.{}.matched.span)", i)).collect();
            let sk: Vec<String> = (0..n).map(|i| format!("::obs::tok_spans::<t::Rule, _>(&a.{}.skipped)", i)).collect();
            let _ = writeln!(out, "                {{ let a = c.get_all(); o.get_all_matched = vec![{}]; o.skipped = vec![{}]; }}", ga.join(", "), sk.join(", "));
        }
        Ex::Rep(inner) => {
            let _ = writeln!(out, "                o.kind = \"rep\";");
            let span_of = match &inner.ex {
                Ex::Seq(v) => format!("(x.get_matched().0.span.start(), x.get_matched().{}.span.end())", v.len() - 1),
                _ => "::obs::sp(&x.span)".to_string(),
            };
            let _ = writeln!(out, "                o.iter_matched = c.iter_matched().map(|x| {}).collect();", span_of);
            let _ = writeln!(out, "                o.into_iter_matched = c.clone().into_iter_matched().map(|x| {}).collect();", span_of);
            let _ = writeln!(out, "                o.iter_all_matched = c.iter_all().map(|y| {{ let x = &y.matched; {} }}).collect();", span_of);
            let _ = writeln!(out, "                o.skipped = c.iter_all().map(|y| ::obs::tok_spans::<t::Rule, _>(&y.skipped)).collect();");
        }
        _ => {}
    }
    let _ = writeln!(out, "                Some(o) }} run }}),");
}

fn grammar_module(s: &GSpec, out: &mut String) {
    let src = s.src();
    let g = Grammar::load(&s.src_plain()).expect("validated");
    let m = format!("g_{}", s.id);
    let _ = writeln!(out, "#[allow(non_snake_case, non_camel_case_types, dead_code, unused_imports, clippy::all)]");
    let _ = writeln!(out, "pub mod {} {{", m);
    // typed parser
    let _ = writeln!(out, "    pub mod t {{");
    let _ = writeln!(out, "        #[derive(::pest_typed_derive::TypedParser)]");
    let _ = writeln!(out, "        #[grammar_inline = {}]", raw(&src));
    if s.options.is_empty() {
        if s.getters {
            let _ = writeln!(out, "        #[emit_rule_reference]");
        }
    } else {
        for o in &s.options {
            let _ = writeln!(out, "        #[{}]", o);
        }
    }
    if !s.options.iter().any(|o| o.starts_with("no_warnings")) {
        let _ = writeln!(out, "        #[no_warnings]");
    }
    let _ = writeln!(out, "        pub struct P;");
    let _ = writeln!(out, "    }}");
    // pest parser with wrappers
    let mut psrc = src.clone();
    for r in s.rules.iter().filter(|r| r.entry) {
        let _ = writeln!(psrc, "__w_{} = {{ {} }}", r.name, r.name);
        if s.atom0 {
            let _ = writeln!(psrc, "__a_{} = @{{ {} }}", r.name, r.name);
        }
    }
    let _ = writeln!(out, "    pub mod p {{");
    let _ = writeln!(out, "        #[derive(::pest_derive::Parser)]");
    let _ = writeln!(out, "        #[grammar_inline = {}]", raw(&psrc));
    let _ = writeln!(out, "        pub struct P;");
    let _ = writeln!(out, "    }}");
    // rule id maps
    let _ = writeln!(out, "    fn tid(rule__: t::Rule) -> u16 {{ match rule__ {{ t::Rule::EOI => 0,");
    for (i, r) in s.rules.iter().enumerate() {
        let _ = writeln!(out, "        t::Rule::r#{} => {},", r.name, i + 1);
    }
    let _ = writeln!(out, "    }} }}");
    let _ = writeln!(out, "    fn pid(rule__: p::Rule) -> u16 {{ match rule__ {{");
    if uses_builtin(&g, "EOI") {
        let _ = writeln!(out, "        p::Rule::EOI => 0,");
    }
    for (i, r) in s.rules.iter().enumerate() {
        let _ = writeln!(out, "        p::Rule::r#{} => {},", r.name, i + 1);
    }
    for (i, r) in s.rules.iter().enumerate() {
        if r.entry {
            let _ = writeln!(out, "        p::Rule::r#__w_{} => {},", r.name, 20001 + i);
            if s.atom0 {
                let _ = writeln!(out, "        p::Rule::r#__a_{} => {},", r.name, 40001 + i);
            }
        }
    }
    let _ = writeln!(out, "    }} }}");
    // leaf impls for getters
    if s.getters {
        for r in &g.rules {
            let mac = if r.kind == Kind::Silent { "leaf_silent" } else { "leaf_spanned" };
            let _ = writeln!(out, "    ::obs::{}!(t::rules::r#{});", mac, r.name);
        }
        let _ = writeln!(out, "    ::obs::leaf_spanned!(t::rules::EOI);");
    }
    // entries
    let observe = if s.all_forms { "observe_all" } else { "observe_str" };
    let _ = writeln!(out, "    pub fn entry() -> ::obs::GrammarEntry {{");
    let _ = writeln!(out, "        let mut rules: Vec<::obs::RuleEntry> = vec![];");
    for (ri, r) in s.rules.iter().enumerate() {
        if !r.entry {
            // non-entry rules still need a slot so that rule indices coincide with the grammar
            let _ = writeln!(out, "        rules.push(::obs::RuleEntry {{ name: {:?}, typed: ::obs::no_typed, compare: None, tree: None, getters: None, acc: None, pest: ::obs::no_pest, pest_atomic: None, entry: false }});", r.name);
            continue;
        }
        let n = &r.name;
        let ty1 = format!("t::rules::r#{}<'i, 1>", n);
        let ty0 = format!("t::rules::r#{}<'i, 0>", n);
        let _ = writeln!(out, "        rules.push(::obs::RuleEntry {{");
        let _ = writeln!(out, "            name: {:?}, entry: true,", n);
        let _ = writeln!(
            out,
            "            typed: {{ fn run<'i>(req: &::obs::Req<'i>) -> ::obs::Obs {{ ::obs::{}::<'i, t::Rule, {}, {}, t::P>(req, tid) }} run }},",
            observe, ty1, ty0
        );
        if s.compare {
            let _ = writeln!(
                out,
                "            compare: Some({{ fn run<'i>(s: &'i str, f1: (::obs::Form, usize, usize), f2: (::obs::Form, usize, usize)) -> Option<(bool, bool, bool)> {{ ::obs::compare::<'i, t::Rule, {}>(s, f1, f2) }} run }}),",
                ty1
            );
        } else {
            let _ = writeln!(out, "            compare: None,");
        }
        if s.tree && g.rules[ri].kind != Kind::Silent {
            let f = if g.rules[ri].kind == Kind::Atomic { "observe_pair" } else { "observe_tree" };
            let _ = writeln!(
                out,
                "            tree: Some({{ fn run<'i>(req: &::obs::Req<'i>) -> Option<::obs::TreeObs> {{ ::obs::{}::<'i, t::Rule, {}>(req, tid) }} run }}),",
                f, ty1
            );
        } else {
            let _ = writeln!(out, "            tree: None,");
        }
        if s.getters && g.rules[ri].kind != Kind::Atomic {
            let mut names = BTreeSet::new();
            mentions(&g.rules[ri].body, &mut names);
            let _ = writeln!(out, "            getters: Some({{ fn run<'i>(req: &::obs::Req<'i>) -> Option<Vec<::obs::getters::GetterObs>> {{");
            let _ = writeln!(out, "                let node: {} = ::obs::parse_req::<'i, t::Rule, {}>(req)?;", ty1, ty1);
            let _ = writeln!(out, "                let mut v = vec![];");
            for x in &names {
                let _ = writeln!(out, "                v.push(::obs::getters::observe_getter({:?}, node.r#{}()));", x, x);
            }
            let _ = writeln!(out, "                Some(v) }} run }}),");
        } else {
            let _ = writeln!(out, "            getters: None,");
        }
        if s.acc && ["c", "ca", "s", "sx", "r", "rs", "cm", "cmx", "cmi"].contains(&n.as_str()) {
            acc_code(s, &g, ri, &ty1, out);
        } else {
            let _ = writeln!(out, "            acc: None,");
        }
        if s.no_pest {
            let _ = writeln!(out, "            pest: ::obs::no_pest, pest_atomic: None,");
        } else {
            let _ = writeln!(
                out,
                "            pest: {{ fn run(s: &str) -> ::obs::PestObs {{ ::obs::run_pest(|| <p::P as ::pest::Parser<p::Rule>>::parse(p::Rule::r#__w_{}, s), pid) }} run }},",
                n
            );
            if s.atom0 {
                let _ = writeln!(
                    out,
                    "            pest_atomic: Some({{ fn run(s: &str) -> ::obs::PestObs {{ ::obs::run_pest(|| <p::P as ::pest::Parser<p::Rule>>::parse(p::Rule::r#__a_{}, s), pid) }} run }}),",
                    n
                );
            } else {
                let _ = writeln!(out, "            pest_atomic: None,");
            }
        }
        let _ = writeln!(out, "        }});");
    }
    let init: Vec<String> = s.init_alphabet.iter().map(|x| format!("{:?}", x)).collect();
    let _ = writeln!(out, "        ::obs::GrammarEntry {{");
    let _ = writeln!(out, "            id: {:?}, family: {:?}, src: {}, options: {:?}, base_id: {:?},", s.id, s.family, raw(&src), s.options.join(" "), s.base_id);
    let _ = writeln!(out, "            alphabet: {:?}, max_len: {}, max_len_thorough: {},", s.alphabet, s.max_len, s.max_len_thorough);
    let _ = writeln!(out, "            init_alphabet: &[{}], init_depth: {}, all_forms: {},", init.join(", "), s.init_depth, s.all_forms);
    match &s.inputs {
        None => {
            let _ = writeln!(out, "            inputs: None,");
        }
        Some(list) => {
            let items: Vec<String> = list.iter().map(|x| format!("{:?}", x)).collect();
            let _ = writeln!(out, "            inputs: Some(&[{}]),", items.join(", "));
        }
    }
    let _ = writeln!(out, "            rules,");
    let _ = writeln!(out, "        }}");
    let _ = writeln!(out, "    }}");
    let _ = writeln!(out, "}}");
}

fn shard_crate(dir: &Path, name: &str, specs: &[&GSpec]) -> bool {
    let mut changed = false;
    let extras = specs.iter().any(|s| s.extras);
    let (f1, f2) = if extras {
        (", features = [\"grammar-extras\"]", ", features = [\"extras\"]")
    } else {
        ("", "")
    };
    let cargo = format!(
        "[package]\nname = \"{}\"\nversion = \"0.1.0\"\nedition = \"2021\"\n\n[dependencies]\npest = {{ workspace = true }}\npest_derive = {{ workspace = true{} }}\npest_typed = {{ workspace = true }}\npest_typed_derive = {{ workspace = true{} }}\nobs = {{ workspace = true }}\npegx = {{ workspace = true }}\nrefpeg = {{ workspace = true{} }}\n",
        name, f1, f1, f2
    );
    changed |= write_if_changed(&dir.join("Cargo.toml"), &cargo);
    let mut src = String::new();
    src.push_str("// generated by gramgen - do not edit\n#![recursion_limit = \"1024\"]\n#![allow(warnings)]\n");
    for s in specs {
        grammar_module(s, &mut src);
    }
    src.push_str("fn main() {\n    let entries = vec![\n");
    for s in specs {
        let _ = writeln!(src, "        g_{}::entry(),", s.id);
    }
    src.push_str("    ];\n    ::pegx::main(entries)\n}\n");
    changed |= write_if_changed(&dir.join("src/main.rs"), &src);
    changed
}

pub fn write_all(out_dir: &str, by_family: &BTreeMap<String, Vec<GSpec>>) {
    let out = Path::new(out_dir);
    let mut index = String::from("{\n \"shards\": [\n");
    let mut wanted: BTreeSet<String> = BTreeSet::new();
    wanted.insert("zz_placeholder".to_string());
    let mut first = true;
    let mut total_rules = 0;
    for (fam, specs) in by_family {
        for quick in [true, false] {
            let tier = if quick { "q" } else { "t" };
            let sel: Vec<&GSpec> = specs.iter().filter(|s| s.quick == quick).collect();
            let mut k = 0;
            let mut cur: Vec<&GSpec> = vec![];
            let mut cur_rules = 0;
            let mut flush = |cur: &mut Vec<&GSpec>, cur_rules: &mut usize, k: &mut usize, index: &mut String| {
                if cur.is_empty() {
                    return;
                }
                let name = format!("{}_{}_{}", tier, fam, k);
                let changed = shard_crate(&out.join(&name), &name, cur);
                wanted.insert(name.clone());
                if !first {
                    index.push_str(",\n");
                }
                first = false;
                let ids: Vec<String> = cur.iter().map(|s| format!("\"{}\"", s.id)).collect();
                let _ = write!(
                    index,
                    "  {{\"name\": \"{}\", \"family\": \"{}\", \"tier\": \"{}\", \"rules\": {}, \"grammars\": [{}], \"changed\": {}}}",
                    name,
                    fam,
                    if quick { "quick" } else { "thorough" },
                    cur_rules,
                    ids.join(", "),
                    changed
                );
                total_rules += *cur_rules;
                *k += 1;
                cur.clear();
                *cur_rules = 0;
            };
            for s in sel {
                let n = s.entry_rules();
                if cur_rules + n > RULES_PER_SHARD && !cur.is_empty() {
                    flush(&mut cur, &mut cur_rules, &mut k, &mut index);
                }
                cur.push(s);
                cur_rules += n;
            }
            flush(&mut cur, &mut cur_rules, &mut k, &mut index);
        }
    }
    index.push_str("\n ]\n}\n");
    write_if_changed(&out.join("index.json"), &index);
    // remove stale shard crates
    if let Ok(rd) = std::fs::read_dir(out) {
        for ent in rd.flatten() {
            let name = ent.file_name().to_string_lossy().to_string();
            // probe crates are written by genrun, not by gramgen
            if ent.path().is_dir() && !wanted.contains(&name) && !name.starts_with("probe_") {
                let _ = std::fs::remove_dir_all(ent.path());
            }
        }
    }
    eprintln!("gramgen: {} shard crates, {} entry rules", wanted.len() - 1, total_rules);
}

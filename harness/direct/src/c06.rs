//! C06 (E2 half): stack built-ins used directly against a list-slicing model.

use crate::c19::R;
use crate::common::{viol, Opts};
use pegx::report::Report;
use pest_typed::predefined_node::{PeekSlice1, PeekSlice2, Push, Str, DROP, PEEK, PEEK_ALL, POP, POP_ALL};
use pest_typed::tracker::Tracker;
use pest_typed::{Position, Span, Stack, StringWrapper, TypedNode};
use refpeg::enumerate;
use refpeg::json::J;
use std::fmt::Debug;

#[derive(Clone, Debug, Hash, PartialEq, Eq)]
pub struct AB;
impl StringWrapper for AB {
    const CONTENT: &'static str = "ab";
}
#[derive(Clone, Debug, Hash, PartialEq, Eq)]
pub struct A1;
impl StringWrapper for A1 {
    const CONTENT: &'static str = "a";
}

/// Expected: None = fail, Some((consumed, final stack))
type Model<'a> = &'a dyn Fn(&[&str], &str) -> Option<(usize, Vec<String>)>;

fn norm(i: i32, len: usize) -> Option<usize> {
    let l = len as i64;
    let i = i as i64;
    if i >= 0 {
        if i <= l {
            Some(i as usize)
        } else {
            None
        }
    } else if -i <= l {
        Some((l + i) as usize)
    } else {
        None
    }
}

fn slice_model(stack: &[&str], input: &str, a: i32, b: Option<i32>) -> Option<(usize, Vec<String>)> {
    let len = stack.len();
    let s = norm(a, len)?;
    let e = match b {
        None => len,
        Some(b) => norm(b, len)?,
    };
    let keep: Vec<String> = stack.iter().map(|x| x.to_string()).collect();
    if e <= s {
        return Some((0, keep));
    }
    let cat: String = stack[s..e].concat();
    if input.starts_with(&cat) {
        Some((cat.len(), keep))
    } else {
        None
    }
}

fn drive<'i, N: TypedNode<'i, R> + Debug>(input: &'i str, init: &'i [&'static str], check: bool) -> (bool, usize, Vec<String>) {
    let mut st: Stack<Span<'i>> = Stack::new();
    for t in init {
        st.push(Span::new_full(t));
    }
    let pos = Position::from_start(input);
    let mut tr = Tracker::<R>::new(pos);
    let (ok, end) = if check {
        match N::try_check_partial_with(pos, &mut st, &mut tr) {
            Some(p) => (true, p.pos()),
            None => (false, 0),
        }
    } else {
        match N::try_parse_partial_with(pos, &mut st, &mut tr) {
            Some((p, _)) => (true, p.pos()),
            None => (false, 0),
        }
    };
    let n = st.len();
    let stack = if n == 0 { vec![] } else { st[0..n].iter().map(|s| s.as_str().to_string()).collect() };
    (ok, end, stack)
}

/// The same node on a Span sub-input of a longer text (offsets relative to the start of the sub-input).
fn drive_span<'i, N: TypedNode<'i, R> + Debug>(input: &str, init: &'i [&'static str], check: bool) -> (bool, usize, Vec<String>) {
    use pest_typed::{AsInput, Input};
    let padded: &'static str = crate::common::padded_of(input);
    let a = crate::common::PAD_BEFORE.len();
    let mut st: Stack<Span<'i>> = Stack::new();
    for t in init {
        st.push(Span::new_full(t));
    }
    let span = Span::new(padded, a, a + input.len()).expect("boundaries");
    let inp = span.as_input();
    let mut tr = Tracker::<R>::new(inp);
    let (ok, end) = if check {
        match N::try_check_partial_with(inp, &mut st, &mut tr) {
            Some(p) => (true, p.byte_offset()),
            None => (false, a),
        }
    } else {
        match N::try_parse_partial_with(inp, &mut st, &mut tr) {
            Some((p, _)) => (true, p.byte_offset()),
            None => (false, a),
        }
    };
    let n = st.len();
    let stack = if n == 0 { vec![] } else { st[0..n].iter().map(|s| s.as_str().to_string()).collect() };
    (ok, end.wrapping_sub(a), stack)
}

fn compare<'i, N: TypedNode<'i, R> + Debug>(what: &str, stacks: &'i [Vec<&'static str>], inputs: &'i [String], rep: &mut Report, model: Model) {
    rep.rules += 1;
    for st in stacks {
        for input in inputs {
            rep.cases += 1;
            let exp = model(st, input);
            let r = std::panic::catch_unwind(|| (drive::<N>(input, st, false), drive::<N>(input, st, true), drive_span::<N>(input, st, false), drive_span::<N>(input, st, true)));
            let (p, c, sp, sc) = match r {
                Ok(x) => x,
                Err(_) => {
                    rep.violation(viol("C06", "panic", input, what.to_string(), 0, 0, format!("{:?}", exp), "panic".into(), format!("stack {:?}", st)));
                    continue;
                }
            };
            if !st.is_empty() {
                rep.nontrivial += 1;
            }
            if exp.is_none() {
                rep.cell("expected-failure");
            }
            rep.outcome(format!("{:?}", exp.as_ref().map(|e| e.0)));
            for (label, g) in [("parse", &p), ("check", &c), ("parse-on-span", &sp), ("check-on-span", &sc)] {
                let same = match &exp {
                    None => !g.0,
                    Some((end, stk)) => g.0 && g.1 == *end && &g.2 == stk,
                };
                if !same {
                    rep.violation(viol(
                        "C06",
                        &format!("stack-builtin-{}", label),
                        input,
                        what.to_string(),
                        0,
                        0,
                        format!("{:?}", exp),
                        format!("ok={} end={} stack={:?}", g.0, g.1, g.2),
                        format!("stack (bottom first) {:?}", st),
                    ));
                }
            }
            if rep.samples.len() < 3 && exp.is_some() && p.1 >= 2 && st.len() >= 3 {
                let mut j = J::obj();
                j.set("node", J::s(what));
                j.set("stack_bottom_first", J::s(&format!("{:?}", st)));
                j.set("input", J::s(input));
                j.set("result", J::s(&format!("consumed {} final stack {:?}", p.1, p.2)));
                rep.sample(j);
            }
        }
    }
}

fn slice1<const A: i32>(stacks: &[Vec<&'static str>], inputs: &[String], rep: &mut Report) {
    compare::<PeekSlice1<A>>(&format!("PEEK[{}..]", A), stacks, inputs, rep, &|st, i| slice_model(st, i, A, None));
}
fn slice2<const A: i32, const B: i32>(stacks: &[Vec<&'static str>], inputs: &[String], rep: &mut Report) {
    compare::<PeekSlice2<A, B>>(&format!("PEEK[{}..{}]", A, B), stacks, inputs, rep, &|st, i| slice_model(st, i, A, Some(B)));
}

use pegx::report::Report as _R;
include!("c06_calls.rs");

pub fn run(o: &Opts) -> Report {
    let (depth, n) = if o.thorough { (4, 6) } else { (3, 5) };
    let alpha: [&'static str; 4] = ["a", "b", "ab", ""];
    let mut stacks: Vec<Vec<&'static str>> = vec![vec![]];
    let mut layer: Vec<Vec<&'static str>> = vec![vec![]];
    for _ in 0..depth {
        let mut next = vec![];
        for s in &layer {
            for t in alpha {
                let mut v = s.clone();
                v.push(t);
                next.push(v);
            }
        }
        stacks.extend(next.iter().cloned());
        layer = next;
    }
    let inputs = enumerate::strings(&['a', 'b'], n);
    let mut rep = Report::default();
    all_slices(&stacks, &inputs, &mut rep);
    // extreme bounds: out of range, never a panic
    slice1::<{ i32::MIN }>(&stacks, &inputs, &mut rep);
    slice1::<{ i32::MAX }>(&stacks, &inputs, &mut rep);
    slice1::<{ i32::MIN + 1 }>(&stacks, &inputs, &mut rep);
    slice2::<{ i32::MIN }, 1>(&stacks, &inputs, &mut rep);
    slice2::<0, { i32::MIN }>(&stacks, &inputs, &mut rep);
    slice2::<0, { i32::MAX }>(&stacks, &inputs, &mut rep);
    slice2::<{ i32::MIN }, { i32::MIN }>(&stacks, &inputs, &mut rep);
    slice2::<{ i32::MAX }, { i32::MIN }>(&stacks, &inputs, &mut rep);
    slice2::<-1, { i32::MAX }>(&stacks, &inputs, &mut rep);
    let own = |st: &[&str]| -> Vec<String> { st.iter().map(|s| s.to_string()).collect() };
    compare::<PEEK>("PEEK", &stacks, &inputs, &mut rep, &|st, i| {
        let top = st.last()?;
        if i.starts_with(top) {
            Some((top.len(), own(st)))
        } else {
            None
        }
    });
    compare::<POP>("POP", &stacks, &inputs, &mut rep, &|st, i| {
        let top = st.last()?;
        if i.starts_with(top) {
            Some((top.len(), own(&st[..st.len() - 1])))
        } else {
            None
        }
    });
    compare::<DROP>("DROP", &stacks, &inputs, &mut rep, &|st, _| {
        if st.is_empty() {
            None
        } else {
            Some((0, own(&st[..st.len() - 1])))
        }
    });
    compare::<PEEK_ALL>("PEEK_ALL", &stacks, &inputs, &mut rep, &|st, i| {
        let cat: String = st.iter().rev().cloned().collect();
        if i.starts_with(&cat) {
            Some((cat.len(), own(st)))
        } else {
            None
        }
    });
    compare::<POP_ALL>("POP_ALL", &stacks, &inputs, &mut rep, &|st, i| {
        let cat: String = st.iter().rev().cloned().collect();
        if i.starts_with(&cat) {
            Some((cat.len(), vec![]))
        } else {
            None
        }
    });
    compare::<Push<Str<AB>>>("PUSH(\"ab\")", &stacks, &inputs, &mut rep, &|st, i| {
        if i.starts_with("ab") {
            let mut v = own(st);
            v.push("ab".into());
            Some((2, v))
        } else {
            None
        }
    });
    compare::<Push<Option<Str<A1>>>>("PUSH(\"a\"?)", &stacks, &inputs, &mut rep, &|st, i| {
        let mut v = own(st);
        if i.starts_with('a') {
            v.push("a".into());
            Some((1, v))
        } else {
            v.push("".into());
            Some((0, v))
        }
    });
    compare::<(Push<Str<A1>>, PEEK)>("PUSH(\"a\") then PEEK", &stacks, &inputs, &mut rep, &|st, i| {
        if i.starts_with("aa") {
            let mut v = own(st);
            v.push("a".into());
            Some((2, v))
        } else {
            None
        }
    });
    // multi-byte entries and inputs (lengths in bytes and in characters differ)
    {
        let alpha: [&'static str; 3] = ["é", "aé", ""];
        let mut stacks: Vec<Vec<&'static str>> = vec![vec![]];
        let mut layer: Vec<Vec<&'static str>> = vec![vec![]];
        for _ in 0..(if o.thorough { 3 } else { 2 }) {
            let mut next = vec![];
            for s in &layer {
                for t in alpha {
                    let mut v = s.clone();
                    v.push(t);
                    next.push(v);
                }
            }
            stacks.extend(next.iter().cloned());
            layer = next;
        }
        let inputs = enumerate::strings(&['a', 'é', '→'], if o.thorough { 5 } else { 4 });
        all_slices(&stacks, &inputs, &mut rep);
        compare::<PEEK_ALL>("PEEK_ALL", &stacks, &inputs, &mut rep, &|st, i| {
            let cat: String = st.iter().rev().cloned().collect();
            if i.starts_with(&cat) {
                Some((cat.len(), own(st)))
            } else {
                None
            }
        });
        compare::<POP>("POP", &stacks, &inputs, &mut rep, &|st, i| {
            let top = st.last()?;
            if i.starts_with(top) {
                Some((top.len(), own(&st[..st.len() - 1])))
            } else {
                None
            }
        });
        rep.cells.insert("multi_byte_stacks".into(), stacks.len() as u64);
    }
    rep.max_len_done = n;
    rep.cells.insert("max_stack_depth".into(), depth as u64);
    rep
}

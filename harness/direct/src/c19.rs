//! C19: counted repetition and the raw combinators obey their stated bounds
//! (runtime crate used directly; reference = a ten-line greedy loop).

use crate::common::{viol, Opts};
use pegx::report::Report;
use pest_typed::predefined_node::{AtomicRepeat, Push, RepExact, RepMin, RepMinMax, SkipChar, Str, POP};
use pest_typed::tracker::Tracker;
use pest_typed::{NeverFailedTypedNode, Position, Span, Stack, StringWrapper, TypedNode};
use refpeg::enumerate;
use refpeg::json::J;
use std::fmt::Debug;

#[derive(Clone, Copy, Debug, Eq, Hash, Ord, PartialEq, PartialOrd)]
#[allow(clippy::upper_case_acronyms)]
pub enum R {
    EOI,
}

macro_rules! sw {
    ($n:ident, $s:literal) => {
        #[derive(Clone, Debug, Hash, PartialEq, Eq)]
        pub struct $n;
        impl StringWrapper for $n {
            const CONTENT: &'static str = $s;
        }
    };
}
sw!(A, "a");
sw!(AB, "ab");
sw!(Sp, " ");
sw!(B, "b");

/// The implicit-skip type used by all instantiations: `" "*`.
type Ig = AtomicRepeat<Str<Sp>>;

/// An element kind: the node type plus its reference model (value semantics on the stack).
pub trait Elem {
    type Node<'i>: TypedNode<'i, R> + Debug;
    const NAME: &'static str;
    fn model(input: &str, pos: usize, stk: &[String]) -> Option<(usize, Vec<String>)>;
}

pub struct EA;
impl Elem for EA {
    type Node<'i> = Str<A>;
    const NAME: &'static str = "\"a\"";
    fn model(input: &str, pos: usize, stk: &[String]) -> Option<(usize, Vec<String>)> {
        if input[pos..].starts_with('a') {
            Some((pos + 1, stk.to_vec()))
        } else {
            None
        }
    }
}
pub struct EAB;
impl Elem for EAB {
    type Node<'i> = pest_typed::choices::Choice2<Str<AB>, Str<A>>;
    const NAME: &'static str = "(\"ab\" | \"a\")";
    fn model(input: &str, pos: usize, stk: &[String]) -> Option<(usize, Vec<String>)> {
        if input[pos..].starts_with("ab") {
            Some((pos + 2, stk.to_vec()))
        } else if input[pos..].starts_with('a') {
            Some((pos + 1, stk.to_vec()))
        } else {
            None
        }
    }
}
pub struct ENest;
impl Elem for ENest {
    type Node<'i> = RepMinMax<Str<A>, Ig, 0, 1, 2>;
    const NAME: &'static str = "\"a\"{1,2} (no skip)";
    fn model(input: &str, pos: usize, stk: &[String]) -> Option<(usize, Vec<String>)> {
        let r = &input[pos..];
        if r.starts_with("aa") {
            Some((pos + 2, stk.to_vec()))
        } else if r.starts_with('a') {
            Some((pos + 1, stk.to_vec()))
        } else {
            None
        }
    }
}
pub struct EPush;
impl Elem for EPush {
    type Node<'i> = (Push<Str<A>>, Str<A>);
    const NAME: &'static str = "PUSH(\"a\") then \"a\"";
    fn model(input: &str, pos: usize, stk: &[String]) -> Option<(usize, Vec<String>)> {
        if input[pos..].starts_with("aa") {
            let mut v = stk.to_vec();
            v.push("a".to_string());
            Some((pos + 2, v))
        } else {
            None
        }
    }
}
pub struct EPop;
impl Elem for EPop {
    type Node<'i> = (POP<'i>, Str<A>);
    const NAME: &'static str = "POP then \"a\"";
    fn model(input: &str, pos: usize, stk: &[String]) -> Option<(usize, Vec<String>)> {
        let top = stk.last()?;
        if input[pos..].starts_with(top.as_str()) && input[pos + top.len()..].starts_with('a') {
            let mut v = stk.to_vec();
            v.pop();
            Some((pos + top.len() + 1, v))
        } else {
            None
        }
    }
}

/// Zero-width capable elements (only instantiated where the repetition is bounded).
pub struct EOpt;
impl Elem for EOpt {
    type Node<'i> = Option<Str<A>>;
    const NAME: &'static str = "\"a\"?";
    fn model(input: &str, pos: usize, stk: &[String]) -> Option<(usize, Vec<String>)> {
        if input[pos..].starts_with('a') {
            Some((pos + 1, stk.to_vec()))
        } else {
            Some((pos, stk.to_vec()))
        }
    }
}
pub struct ENest0;
impl Elem for ENest0 {
    type Node<'i> = RepMinMax<Str<A>, Ig, 0, 0, 2>;
    const NAME: &'static str = "\"a\"{0,2} (no skip)";
    fn model(input: &str, pos: usize, stk: &[String]) -> Option<(usize, Vec<String>)> {
        let r = &input[pos..];
        let n = if r.starts_with("aa") { 2 } else if r.starts_with('a') { 1 } else { 0 };
        Some((pos + n, stk.to_vec()))
    }
}
pub struct EDrop;
impl Elem for EDrop {
    type Node<'i> = pest_typed::predefined_node::DROP;
    const NAME: &'static str = "DROP";
    fn model(_input: &str, pos: usize, stk: &[String]) -> Option<(usize, Vec<String>)> {
        if stk.is_empty() {
            None
        } else {
            Some((pos, stk[..stk.len() - 1].to_vec()))
        }
    }
}

/// Reference: greedy bounded repetition; `skip` = `" "*` before every iteration but the first,
/// given back when the iteration fails.
fn rep_model<E: Elem>(input: &str, init: &[String], skip: bool, min: usize, max: Option<usize>) -> Option<(usize, usize, Vec<String>)> {
    let mut pos = 0;
    let mut n = 0;
    let mut stk = init.to_vec();
    loop {
        if let Some(m) = max {
            if n >= m {
                break;
            }
        }
        let mut p = pos;
        if skip && n > 0 {
            while input[p..].starts_with(' ') {
                p += 1;
            }
        }
        match E::model(input, p, &stk) {
            Some((p2, s2)) => {
                if max.is_none() && p2 == pos && s2 == stk {
                    return None; // an unbounded repetition would never terminate; not instantiated
                }
                pos = p2;
                stk = s2;
                n += 1;
            }
            None => break,
        }
    }
    if n < min || max.map_or(false, |m| min > m) {
        None
    } else {
        Some((pos, n, stk))
    }
}

static INITS: &[&[&str]] = &[&[], &["a"], &["a", "a"], &["b"]];

struct Got {
    ok: bool,
    end: usize,
    stack: Vec<String>,
}

fn drive<'i, N: TypedNode<'i, R> + Debug>(input: &'i str, init: &'i [&'i str], check: bool) -> (Got, Option<String>) {
    let mut st: Stack<Span<'i>> = Stack::new();
    for t in init {
        st.push(Span::new_full(t));
    }
    let pos = Position::from_start(input);
    let mut tr = Tracker::<R>::new(pos);
    let (ok, end, dbg) = if check {
        match N::try_check_partial_with(pos, &mut st, &mut tr) {
            Some(p) => (true, p.pos(), None),
            None => (false, 0, None),
        }
    } else {
        match N::try_parse_partial_with(pos, &mut st, &mut tr) {
            Some((p, node)) => (true, p.pos(), Some(format!("{:?}", node))),
            None => (false, 0, None),
        }
    };
    let n = st.len();
    let stack = if n == 0 { vec![] } else { st[0..n].iter().map(|s| s.as_str().to_string()).collect() };
    (Got { ok, end, stack }, dbg)
}

/// The same node on a Span sub-input of a longer text; offsets relative to the start of the sub-input.
fn drive_span<'i, N: TypedNode<'i, R> + Debug>(input: &str, init: &'i [&'i str], check: bool) -> Got {
    use pest_typed::{AsInput, Input};
    let padded: &'static str = crate::common::padded_of(input);
    let a = crate::common::PAD_BEFORE.len();
    let mut st: Stack<Span<'i>> = Stack::new();
    for t in init {
        st.push(Span::new_full(t));
    }
    let inp = Span::new(padded, a, a + input.len()).expect("boundaries").as_input();
    let mut tr = Tracker::<R>::new(inp);
    let (ok, end) = if check {
        match N::try_check_partial_with(inp, &mut st, &mut tr) {
            Some(p) => (true, p.byte_offset().wrapping_sub(a)),
            None => (false, 0),
        }
    } else {
        match N::try_parse_partial_with(inp, &mut st, &mut tr) {
            Some((p, _)) => (true, p.byte_offset().wrapping_sub(a)),
            None => (false, 0),
        }
    };
    let n = st.len();
    let stack = if n == 0 { vec![] } else { st[0..n].iter().map(|s| s.as_str().to_string()).collect() };
    Got { ok, end, stack }
}

fn compare<'i, N: TypedNode<'i, R> + Debug>(
    what: &str,
    inputs: &'i [String],
    rep: &mut Report,
    model: &dyn Fn(&str, &[String]) -> Option<(usize, Option<usize>, Vec<String>)>,
    count_of: &dyn Fn(&str) -> Option<usize>,
    min_gt_max: bool,
) {
    compare_on::<N>(INITS, what, inputs, rep, model, count_of, min_gt_max)
}

fn compare_on<'i, N: TypedNode<'i, R> + Debug>(
    inits: &'static [&'static [&'static str]],
    what: &str,
    inputs: &'i [String],
    rep: &mut Report,
    model: &dyn Fn(&str, &[String]) -> Option<(usize, Option<usize>, Vec<String>)>,
    count_of: &dyn Fn(&str) -> Option<usize>,
    min_gt_max: bool,
) {
    rep.rules += 1;
    for init in inits {
        let init_owned: Vec<String> = init.iter().map(|s| s.to_string()).collect();
        for input in inputs {
            rep.cases += 1;
            let exp = model(input, &init_owned);
            let r = std::panic::catch_unwind(|| (drive::<N>(input, init, false), drive::<N>(input, init, true)));
            let ((p, dbg), (c, _)) = match r {
                Ok(x) => x,
                Err(_) => {
                    rep.violation(viol("C19", "panic", input, what.to_string(), 0, 0, format!("{:?}", exp), "panic".into(), format!("init {:?}", init)));
                    continue;
                }
            };
            if exp.is_some() && exp.as_ref().unwrap().0 > 0 {
                rep.nontrivial += 1;
            }
            rep.outcome(format!("{:?}", exp.as_ref().map(|e| (e.0, e.1))));
            let sig_base = if min_gt_max { "min-greater-than-max-succeeds" } else { "bounds" };
            // parse vs model
            let mut bad: Option<String> = None;
            match &exp {
                None => {
                    if p.ok {
                        bad = Some(format!("parse: Ok(end={}) {}", p.end, dbg.clone().unwrap_or_default()));
                    }
                }
                Some((end, cnt, stk)) => {
                    if !p.ok {
                        bad = Some("parse: None".into());
                    } else if p.end != *end || &p.stack != stk {
                        bad = Some(format!("parse: Ok(end={}, stack={:?})", p.end, p.stack));
                    } else if let (Some(c), Some(d)) = (cnt, dbg.as_deref()) {
                        if let Some(n) = count_of(d) {
                            if n != *c {
                                bad = Some(format!("parse: {} elements", n));
                            }
                        }
                    }
                }
            }
            if let Some(b) = bad {
                rep.violation(viol("C19", sig_base, input, what.to_string(), 0, 0, format!("{:?}", exp), b, format!("init {:?}", init)));
            }
            // the same node on a Span of a longer text (what lies outside the sub-input must not matter)
            match std::panic::catch_unwind(|| (drive_span::<N>(input, init, false), drive_span::<N>(input, init, true))) {
                Ok((sp, sc)) => {
                    for (label, g) in [("parse", &sp), ("check", &sc)] {
                        if g.ok != p.ok || (p.ok && (g.end != p.end || g.stack != p.stack)) {
                            rep.violation(viol(
                                "C19",
                                "differs-on-span-sub-input",
                                input,
                                what.to_string(),
                                0,
                                0,
                                format!("as on the text alone: ok={} end={} stack={:?}", p.ok, p.end, p.stack),
                                format!("{} on Span of {:?}: ok={} end={} stack={:?}", label, crate::common::padded_of(input), g.ok, g.end, g.stack),
                                format!("init {:?}", init),
                            ));
                        }
                    }
                }
                Err(_) => rep.violation(viol("C19", "panic", input, what.to_string(), 0, 0, format!("{:?}", exp), "panic on a Span sub-input".into(), format!("init {:?}", init))),
            }
            // check vs parse
            if p.ok != c.ok || (p.ok && (p.end != c.end || p.stack != c.stack)) {
                rep.violation(viol(
                    "C19",
                    "check-differs-from-parse",
                    input,
                    what.to_string(),
                    0,
                    0,
                    format!("parse ok={} end={} stack={:?}", p.ok, p.end, p.stack),
                    format!("check ok={} end={} stack={:?}", c.ok, c.end, c.stack),
                    format!("init {:?}", init),
                ));
            }
            if rep.samples.len() < 3 && p.ok && p.end > 2 && input.contains(' ') {
                let mut j = J::obj();
                j.set("node", J::s(what));
                j.set("input", J::s(input));
                j.set("init_stack", J::s(&format!("{:?}", init)));
                j.set("result", J::s(&format!("end={} stack={:?}", p.end, p.stack)));
                rep.sample(j);
            }
        }
    }
}

/// The never-failing entry points (`parse_with` / `check_with`) of a repetition with lower bound 0
/// must agree with the fallible ones.
fn never_failed<'i, N: TypedNode<'i, R> + NeverFailedTypedNode<'i, R> + Debug>(what: &str, inputs: &'i [String], rep: &mut Report) {
    for init in INITS {
        for input in inputs {
            rep.cases += 1;
            let r = std::panic::catch_unwind(|| {
                let mk = || {
                    let mut st: Stack<Span<'i>> = Stack::new();
                    for t in init.iter() {
                        st.push(Span::new_full(t));
                    }
                    st
                };
                let stack_of = |st: &Stack<Span<'i>>| -> Vec<String> {
                    let n = st.len();
                    if n == 0 { vec![] } else { st[0..n].iter().map(|s| s.as_str().to_string()).collect() }
                };
                let pos = Position::from_start(input.as_str());
                let mut s1 = mk();
                let (p1, node) = <N as NeverFailedTypedNode<'i, R>>::parse_with(pos, &mut s1);
                let mut s2 = mk();
                let p2 = <N as NeverFailedTypedNode<'i, R>>::check_with(pos, &mut s2);
                let (g, dbg) = drive::<N>(input, init, false);
                (p1.pos(), format!("{:?}", node), stack_of(&s1), p2.pos(), stack_of(&s2), g, dbg)
            });
            match r {
                Ok((p1, d1, st1, p2, st2, g, dbg)) => {
                    rep.nontrivial += (p1 > 0) as u64;
                    if !g.ok || g.end != p1 || g.end != p2 || g.stack != st1 || g.stack != st2 || dbg.as_deref() != Some(d1.as_str()) {
                        rep.violation(viol(
                            "C19",
                            "never-failed-entry-points-differ",
                            input,
                            what.to_string(),
                            0,
                            0,
                            format!("try_parse_partial_with: ok={} end={} stack={:?}", g.ok, g.end, g.stack),
                            format!("parse_with end={} stack={:?}; check_with end={} stack={:?}", p1, st1, p2, st2),
                            format!("init {:?}", init),
                        ));
                    }
                }
                Err(_) => rep.violation(viol("C19", "panic", input, what.to_string(), 0, 0, "a result".into(), "panic".into(), format!("init {:?}", init))),
            }
        }
    }
}

/// Number of top-level elements in the Debug rendering `... { content: [e1, e2, ..] }`.
fn count_top(debug: &str) -> Option<usize> {
    let start = debug.find("content: [")? + "content: [".len();
    let mut depth = 0i32;
    let mut n = 0usize;
    let mut any = false;
    for ch in debug[start..].chars() {
        match ch {
            '[' | '(' | '{' => depth += 1,
            ']' | ')' | '}' => {
                if depth == 0 {
                    break;
                }
                depth -= 1;
            }
            ',' if depth == 0 => n += 1,
            c if !c.is_whitespace() => any = true,
            _ => {}
        }
    }
    Some(if any { n + 1 } else { 0 })
}

fn rep_min_max<E: Elem, const SKIP: usize, const MIN: usize, const MAX: usize>(inputs: &[String], rep: &mut Report) {
    let what = format!("RepMinMax<{}, \" \"*, SKIP={}, MIN={}, MAX={}>", E::NAME, SKIP, MIN, MAX);
    compare::<RepMinMax<E::Node<'_>, Ig, SKIP, MIN, MAX>>(
        &what,
        inputs,
        rep,
        &|i, st| rep_model::<E>(i, st, SKIP == 1, MIN, Some(MAX)).map(|(e, n, s)| (e, Some(n), s)),
        &count_top,
        MIN > MAX,
    );
}
fn rep_min<E: Elem, const SKIP: usize, const MIN: usize>(inputs: &[String], rep: &mut Report) {
    let what = format!("RepMin<{}, \" \"*, SKIP={}, MIN={}>", E::NAME, SKIP, MIN);
    compare::<RepMin<E::Node<'_>, Ig, SKIP, MIN>>(
        &what,
        inputs,
        rep,
        &|i, st| rep_model::<E>(i, st, SKIP == 1, MIN, None).map(|(e, n, s)| (e, Some(n), s)),
        &count_top,
        false,
    );
}
fn rep_exact<E: Elem, const SKIP: usize, const N: usize>(inputs: &[String], rep: &mut Report) {
    let what = format!("RepExact<{}, \" \"*, SKIP={}, TIMES={}>", E::NAME, SKIP, N);
    compare::<RepExact<E::Node<'_>, Ig, SKIP, N>>(
        &what,
        inputs,
        rep,
        &|i, st| rep_model::<E>(i, st, SKIP == 1, N, Some(N)).map(|(e, n, s)| (e, Some(n), s)),
        &count_top,
        false,
    );
}
fn array<E: Elem, const N: usize>(inputs: &[String], rep: &mut Report) {
    let what = format!("[{}; {}]", E::NAME, N);
    compare::<[E::Node<'_>; N]>(
        &what,
        inputs,
        rep,
        &|i, st| {
            // exactly the concatenation of N elements, no skipping
            let mut pos = 0;
            let mut s = st.to_vec();
            for _ in 0..N {
                let (p, s2) = E::model(i, pos, &s)?;
                pos = p;
                s = s2;
            }
            Some((pos, None, s))
        },
        &|_| None,
        false,
    );
}
fn pair<E1: Elem, E2: Elem>(inputs: &[String], rep: &mut Report) {
    let what = format!("({}, {})", E1::NAME, E2::NAME);
    compare::<(E1::Node<'_>, E2::Node<'_>)>(
        &what,
        inputs,
        rep,
        &|i, st| {
            let (p, s) = E1::model(i, 0, st)?;
            let (p, s) = E2::model(i, p, &s)?;
            Some((p, None, s))
        },
        &|_| None,
        false,
    );
}
fn option<E: Elem>(inputs: &[String], rep: &mut Report) {
    let what = format!("Option<{}>", E::NAME);
    compare::<Option<E::Node<'_>>>(
        &what,
        inputs,
        rep,
        &|i, st| match E::model(i, 0, st) {
            Some((p, s)) => Some((p, None, s)),
            None => Some((0, None, st.to_vec())),
        },
        &|_| None,
        false,
    );
}
fn atomic_repeat<E: Elem>(inputs: &[String], rep: &mut Report) {
    let what = format!("AtomicRepeat<{}>", E::NAME);
    compare::<AtomicRepeat<E::Node<'_>>>(
        &what,
        inputs,
        rep,
        &|i, st| rep_model::<E>(i, st, false, 0, None).map(|(e, n, s)| (e, Some(n), s)),
        &count_top,
        false,
    );
}
#[derive(Clone, Debug, PartialEq)]
pub struct NeedlesAb;
impl pest_typed::StringArrayWrapper for NeedlesAb {
    const CONTENT: &'static [&'static str] = &["ab"];
}
#[derive(Clone, Debug, PartialEq)]
pub struct NeedlesTwo;
impl pest_typed::StringArrayWrapper for NeedlesTwo {
    const CONTENT: &'static [&'static str] = &["b ", "aa"];
}
/// The skip-repeat node: consumes up to the first occurrence of any of the strings, or everything.
fn skip_until<W: pest_typed::StringArrayWrapper + Debug + Clone + PartialEq + 'static>(name: &str, inputs: &[String], rep: &mut Report) {
    let what = format!("Skip<{}>", name);
    compare::<pest_typed::predefined_node::Skip<'_, W>>(
        &what,
        inputs,
        rep,
        &|i, st| {
            let end = (0..=i.len()).filter(|k| i.is_char_boundary(*k)).find(|k| W::CONTENT.iter().any(|n| i[*k..].starts_with(n))).unwrap_or(i.len());
            Some((end, None, st.to_vec()))
        },
        &|_| None,
        false,
    );
}
fn skip_char<const N: usize>(inputs: &[String], rep: &mut Report) {
    let what = format!("SkipChar<{}>", N);
    compare::<SkipChar<'_, N>>(
        &what,
        inputs,
        rep,
        &|i, st| {
            let mut it = i.char_indices();
            let mut end = 0;
            for _ in 0..N {
                let (p, c) = it.next()?;
                end = p + c.len_utf8();
            }
            Some((end, None, st.to_vec()))
        },
        &|_| None,
        false,
    );
}

/// A skip type that is not idempotent (at most one blank per application), to tell SKIP = 2 from SKIP = 1.
type OneSp<'i> = RepMinMax<Str<Sp>, pest_typed::predefined_node::Empty<'i>, 0, 0, 1>;

/// Reference for repetitions whose skip is `OneSp` applied `skip_times` times before every iteration but the first.
fn rep_model_onesp<E: Elem>(input: &str, init: &[String], skip_times: usize, min: usize, max: Option<usize>) -> Option<(usize, usize, Vec<String>)> {
    let mut pos = 0;
    let mut n = 0;
    let mut stk = init.to_vec();
    loop {
        if let Some(m) = max {
            if n >= m {
                break;
            }
        }
        let mut p = pos;
        if n > 0 {
            for _ in 0..skip_times {
                if input[p..].starts_with(' ') {
                    p += 1;
                }
            }
        }
        match E::model(input, p, &stk) {
            Some((p2, s2)) => {
                pos = p2;
                stk = s2;
                n += 1;
            }
            None => break,
        }
    }
    if n < min || max.map_or(false, |m| min > m) {
        None
    } else {
        Some((pos, n, stk))
    }
}

fn skip_counts(inputs: &[String], rep: &mut Report) {
    macro_rules! one {
        ($e:ty, $skip:literal, $min:literal, $max:literal) => {{
            let what = format!("RepMinMax<{}, \" \"{{0,1}}, SKIP={}, MIN={}, MAX={}>", <$e as Elem>::NAME, $skip, $min, $max);
            compare::<RepMinMax<<$e as Elem>::Node<'_>, OneSp<'_>, $skip, $min, $max>>(
                &what,
                inputs,
                rep,
                &|i, st| rep_model_onesp::<$e>(i, st, $skip, $min, Some($max)).map(|(e, n, s)| (e, Some(n), s)),
                &count_top,
                false,
            );
            let what = format!("RepMin<{}, \" \"{{0,1}}, SKIP={}, MIN={}>", <$e as Elem>::NAME, $skip, $min);
            compare::<RepMin<<$e as Elem>::Node<'_>, OneSp<'_>, $skip, $min>>(
                &what,
                inputs,
                rep,
                &|i, st| rep_model_onesp::<$e>(i, st, $skip, $min, None).map(|(e, n, s)| (e, Some(n), s)),
                &count_top,
                false,
            );
        }};
    }
    one!(EA, 1, 0, 2);
    one!(EA, 2, 0, 2);
    one!(EA, 2, 1, 3);
    one!(EA, 3, 0, 3);
    one!(EAB, 2, 0, 2);
    one!(EPush, 2, 1, 2);
}

/// An element that replaces the top entry (same depth, other content) before it can fail.
pub struct EDropPush;
impl Elem for EDropPush {
    type Node<'i> = (pest_typed::predefined_node::DROP, (Push<Str<B>>, Str<A>));
    const NAME: &'static str = "DROP then PUSH(\"b\") then \"a\"";
    fn model(input: &str, pos: usize, stk: &[String]) -> Option<(usize, Vec<String>)> {
        if stk.is_empty() || !input[pos..].starts_with("ba") {
            return None;
        }
        let mut v = stk[..stk.len() - 1].to_vec();
        v.push("b".to_string());
        Some((pos + 2, v))
    }
}

/// Elements that match without consuming input but make progress on the stack: an unbounded repetition
/// of them terminates (the stack is finite) and must stay greedy.
pub struct EPopOnly;
impl Elem for EPopOnly {
    type Node<'i> = POP<'i>;
    const NAME: &'static str = "POP";
    fn model(input: &str, pos: usize, stk: &[String]) -> Option<(usize, Vec<String>)> {
        let top = stk.last()?;
        if input[pos..].starts_with(top.as_str()) {
            Some((pos + top.len(), stk[..stk.len() - 1].to_vec()))
        } else {
            None
        }
    }
}
static INITS_ZW: &[&[&str]] = &[&[], &[""], &["", ""], &["", "", ""], &["a", "", ""], &["", "a", ""], &["b", "a", "a"], &["", "", "b"]];

fn zero_width_progress(inputs: &[String], rep: &mut Report) {
    macro_rules! one {
        ($e:ty, $skip:literal, $min:literal) => {{
            let what = format!("RepMin<{}, \" \"*, SKIP={}, MIN={}>", <$e as Elem>::NAME, $skip, $min);
            compare_on::<RepMin<<$e as Elem>::Node<'_>, Ig, $skip, $min>>(
                INITS_ZW,
                &what,
                inputs,
                rep,
                &|i, st| rep_model::<$e>(i, st, $skip == 1, $min, None).map(|(e, n, s)| (e, Some(n), s)),
                &count_top,
                false,
            );
        }};
    }
    macro_rules! elem {
        ($e:ty) => {{
            one!($e, 0, 0);
            one!($e, 0, 1);
            one!($e, 0, 2);
            one!($e, 0, 3);
            one!($e, 1, 0);
            one!($e, 1, 1);
            one!($e, 1, 2);
            one!($e, 1, 3);
            let what = format!("AtomicRepeat<{}>", <$e as Elem>::NAME);
            compare_on::<AtomicRepeat<<$e as Elem>::Node<'_>>>(
                INITS_ZW,
                &what,
                inputs,
                rep,
                &|i, st| rep_model::<$e>(i, st, false, 0, None).map(|(e, n, s)| (e, Some(n), s)),
                &count_top,
                false,
            );
            // bounded as well, on the deeper stacks
            let what = format!("RepMinMax<{}, \" \"*, SKIP=1, MIN=1, MAX=3>", <$e as Elem>::NAME);
            compare_on::<RepMinMax<<$e as Elem>::Node<'_>, Ig, 1, 1, 3>>(
                INITS_ZW,
                &what,
                inputs,
                rep,
                &|i, st| rep_model::<$e>(i, st, true, 1, Some(3)).map(|(e, n, s)| (e, Some(n), s)),
                &count_top,
                false,
            );
        }};
    }
    elem!(EDrop);
    elem!(EPopOnly);
    // (not zero-width, but it shares the deeper stacks) replace-and-abandon inside every kind of repetition
    rep_min_max::<EDropPush, 0, 0, 3>(inputs, rep);
    rep_min_max::<EDropPush, 1, 1, 2>(inputs, rep);
    rep_min::<EDropPush, 1, 0>(inputs, rep);
    rep_min::<EDropPush, 0, 1>(inputs, rep);
    rep_exact::<EDropPush, 1, 2>(inputs, rep);
    atomic_repeat::<EDropPush>(inputs, rep);
    pair::<EOpt, EDropPush>(inputs, rep);
}

include!("c19_calls.rs");
include!("c19_calls_zero.rs");

pub fn run(o: &Opts) -> Report {
    let alpha = ['a', 'b', ' '];
    let n = if o.thorough { 8 } else { 6 };
    let mut inputs = enumerate::strings(&alpha, n);
    // a few multi-byte inputs for SkipChar / arrays
    inputs.extend(["é€a", "aé", "😀a a", "a é"].iter().map(|s| s.to_string()));
    let mut rep = Report::default();
    all(&inputs, &mut rep);
    all_zero(&inputs, &mut rep);
    zero_width_progress(&inputs, &mut rep);
    skip_counts(&inputs, &mut rep);
    skip_until::<NeedlesAb>("[\"ab\"]", &inputs, &mut rep);
    skip_until::<NeedlesTwo>("[\"b \", \"aa\"]", &inputs, &mut rep);
    never_failed::<RepMin<Str<A>, Ig, 0, 0>>("RepMin<\"a\",SKIP=0,0>::parse_with", &inputs, &mut rep);
    never_failed::<RepMin<Str<A>, Ig, 1, 0>>("RepMin<\"a\",SKIP=1,0>::parse_with", &inputs, &mut rep);
    never_failed::<RepMin<<EPop as Elem>::Node<'_>, Ig, 1, 0>>("RepMin<POP \"a\",SKIP=1,0>::parse_with", &inputs, &mut rep);
    never_failed::<RepMinMax<Str<A>, Ig, 0, 0, 2>>("RepMinMax<\"a\",SKIP=0,0,2>::parse_with", &inputs, &mut rep);
    never_failed::<RepMinMax<<EAB as Elem>::Node<'_>, Ig, 1, 0, 3>>("RepMinMax<(\"ab\"|\"a\"),SKIP=1,0,3>::parse_with", &inputs, &mut rep);
    never_failed::<RepMinMax<<EPush as Elem>::Node<'_>, Ig, 1, 0, 2>>("RepMinMax<PUSH..,SKIP=1,0,2>::parse_with", &inputs, &mut rep);
    never_failed::<AtomicRepeat<Str<A>>>("AtomicRepeat<\"a\">::parse_with", &inputs, &mut rep);
    never_failed::<AtomicRepeat<<EPop as Elem>::Node<'_>>>("AtomicRepeat<POP \"a\">::parse_with", &inputs, &mut rep);
    rep.rules += 8;
    rep.max_len_done = n;
    rep
}

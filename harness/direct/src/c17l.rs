//! C17 (E2 half): leaf nodes expose the text they consumed.

use crate::c19::R;
use crate::common::{viol, Opts};
use pegx::report::Report;
use pest_typed::predefined_node::{CharRange, Insens, NewLineType, Push, Skip, SkipChar, Str, ANY, NEWLINE, PEEK, PEEK_ALL, POP, POP_ALL};
use pest_typed::tracker::Tracker;
use pest_typed::{Position, Span, Stack, StringArrayWrapper, StringWrapper, TypedNode};
use refpeg::enumerate;
use refpeg::json::J;

macro_rules! sw {
    ($n:ident, $s:literal) => {
        #[derive(Clone, Debug, Hash, PartialEq, Eq)]
        pub struct $n;
        impl StringWrapper for $n {
            const CONTENT: &'static str = $s;
        }
    };
}
sw!(Kw, "abé");
sw!(Kw2, "Ab1z");
sw!(Sa, "a");
#[derive(Clone, Debug, PartialEq)]
pub struct Needles;
impl StringArrayWrapper for Needles {
    const CONTENT: &'static [&'static str] = &["€a", "b"];
}

fn parse<'i, N: TypedNode<'i, R>>(input: &'i str, init: &'i [&'i str]) -> Option<(usize, N)> {
    let mut st: Stack<Span<'i>> = Stack::new();
    for t in init {
        st.push(Span::new_full(t));
    }
    let pos = Position::from_start(input);
    let mut tr = Tracker::<R>::new(pos);
    N::try_parse_partial_with(pos, &mut st, &mut tr).map(|(p, n)| (p.pos(), n))
}

fn bad(rep: &mut Report, what: &str, input: &str, expected: String, actual: String) {
    rep.violation(viol("C17", "leaf-content", input, what.to_string(), 0, 0, expected, actual, String::new()));
}

fn range<const A: char, const B: char>(rep: &mut Report, chars: &[char]) {
    rep.rules += 1;
    for &c in chars {
        let s = format!("{}x", c);
        rep.cases += 1;
        let r = parse::<CharRange<A, B>>(&s, &[]);
        let should = A <= c && c <= B;
        match r {
            Some((end, node)) => {
                rep.nontrivial += 1;
                rep.outcome(format!("{}", c.len_utf8()));
                if !should || end != c.len_utf8() || node.content != c {
                    bad(rep, &format!("CharRange<{:?},{:?}>", A, B), &s, format!("content {:?} end {}", c, c.len_utf8()), format!("content {:?} end {}", node.content, end));
                }
            }
            None => {
                if should {
                    bad(rep, &format!("CharRange<{:?},{:?}>", A, B), &s, "match".into(), "None".into());
                }
            }
        }
    }
}

fn spellings(s: &str) -> Vec<String> {
    // all 2^k upper/lower spellings of the ASCII letters
    let chars: Vec<char> = s.chars().collect();
    let letters: Vec<usize> = chars.iter().enumerate().filter(|(_, c)| c.is_ascii_alphabetic()).map(|(i, _)| i).collect();
    let mut out = vec![];
    for mask in 0..(1u32 << letters.len()) {
        let mut v = chars.clone();
        for (k, &i) in letters.iter().enumerate() {
            v[i] = if mask & (1 << k) != 0 { v[i].to_ascii_uppercase() } else { v[i].to_ascii_lowercase() };
        }
        out.push(v.into_iter().collect());
    }
    out
}

fn insens<W: StringWrapper>(rep: &mut Report) {
    rep.rules += 1;
    for sp in spellings(W::CONTENT) {
        for tail in ["", "x", "É"] {
            let s = format!("{}{}", sp, tail);
            rep.cases += 1;
            match parse::<Insens<W>>(&s, &[]) {
                Some((end, node)) => {
                    rep.nontrivial += 1;
                    rep.outcome(sp.clone());
                    if end != sp.len() || node.content != sp {
                        bad(rep, &format!("Insens<{:?}>", W::CONTENT), &s, format!("content {:?}", sp), format!("content {:?} end {}", node.content, end));
                    }
                }
                None => bad(rep, &format!("Insens<{:?}>", W::CONTENT), &s, "match".into(), "None".into()),
            }
        }
    }
    // non-ASCII case differences must not match
    let s = W::CONTENT.replace('é', "É");
    if s != W::CONTENT {
        rep.cases += 1;
        if parse::<Insens<W>>(&s, &[]).is_some() {
            bad(rep, &format!("Insens<{:?}>", W::CONTENT), &s, "None (ASCII-only insensitivity)".into(), "match".into());
        }
    }
}

// the library's own `Choice2` .. `Choice12` (the derive macro generates its own copies, so these are only
// reachable by hand-written nodes): alternative k <=> accessor `_k` <=> k-th closure of the chain
sw!(L0, "a");
sw!(L1, "b");
sw!(L2, "c");
sw!(L3, "d");
sw!(L4, "e");
sw!(L5, "f");
sw!(L6, "g");
sw!(L7, "h");
sw!(L8, "i");
sw!(L9, "j");
sw!(L10, "k");
sw!(L11, "l");
const LITS: [&str; 12] = ["a", "b", "c", "d", "e", "f", "g", "h", "i", "j", "k", "l"];

macro_rules! lib_choice {
    ($rep:expr, $ty:ident, $n:literal, $a0:ident $w0:ident, $($idx:literal $acc:ident $w:ident,)* ; $il:literal $al:ident $wl:ident) => {{
        use pest_typed::Storage;
        type C = pest_typed::choices::$ty<Str<$w0>, $(Str<$w>,)* Str<$wl>>;
        $rep.rules += 1;
        for k in 0..=$n {
            // one literal per alternative, plus one that no alternative matches
            let input = if k < $n { format!("{}z", LITS[k]) } else { "z".to_string() };
            $rep.cases += 1;
            match parse::<C>(&input, &[]) {
                Some((end, node)) => {
                    $rep.nontrivial += 1;
                    let acc: Vec<Option<&'static str>> =
                        vec![node.$a0().map(|n| n.get_content()), $(node.$acc().map(|n| n.get_content()),)* node.$al().map(|n| n.get_content())];
                    let exp: Vec<Option<&'static str>> = (0..$n).map(|i| if i == k { Some(LITS[i]) } else { None }).collect();
                    if k >= $n || end != 1 || acc != exp {
                        bad($rep, concat!(stringify!($ty), " accessors"), &input, format!("end 1 {:?}", exp), format!("end {} {:?}", end, acc));
                    }
                    let by_ref: (usize, &'static str) = node
                        .if_then(|n| (0usize, n.get_content()))
                        $(.else_if(|n| ($idx as usize, n.get_content())))*
                        .else_then(|n| ($il as usize, n.get_content()));
                    let dbg = format!("{:?}", node);
                    let by_val: (usize, &'static str) = node
                        .clone()
                        .consume_if_then(|n| (0usize, n.get_content()))
                        $(.else_if(|n| ($idx as usize, n.get_content())))*
                        .else_then(|n| ($il as usize, n.get_content()));
                    if k < $n && (by_ref != (k, LITS[k]) || by_val != (k, LITS[k])) {
                        bad($rep, concat!(stringify!($ty), " chain"), &input, format!("closure {} with {:?}", k, LITS[k]), format!("by reference {:?}, by value {:?}", by_ref, by_val));
                    }
                    if k < $n && !dbg.contains(&format!("_{}:", k)) {
                        bad($rep, concat!(stringify!($ty), " Debug"), &input, format!("field _{}", k), dbg);
                    }
                    $rep.outcome(format!("alt{}", k));
                }
                None => {
                    if k < $n {
                        bad($rep, stringify!($ty), &input, format!("alternative {}", k), "None".into());
                    }
                }
            }
        }
    }};
}

fn lib_choices(rep: &mut Report) {
    lib_choice!(rep, Choice2, 2, _0 L0, ; 1 _1 L1);
    lib_choice!(rep, Choice3, 3, _0 L0, 1 _1 L1, ; 2 _2 L2);
    lib_choice!(rep, Choice4, 4, _0 L0, 1 _1 L1, 2 _2 L2, ; 3 _3 L3);
    lib_choice!(rep, Choice5, 5, _0 L0, 1 _1 L1, 2 _2 L2, 3 _3 L3, ; 4 _4 L4);
    lib_choice!(rep, Choice6, 6, _0 L0, 1 _1 L1, 2 _2 L2, 3 _3 L3, 4 _4 L4, ; 5 _5 L5);
    lib_choice!(rep, Choice7, 7, _0 L0, 1 _1 L1, 2 _2 L2, 3 _3 L3, 4 _4 L4, 5 _5 L5, ; 6 _6 L6);
    lib_choice!(rep, Choice8, 8, _0 L0, 1 _1 L1, 2 _2 L2, 3 _3 L3, 4 _4 L4, 5 _5 L5, 6 _6 L6, ; 7 _7 L7);
    lib_choice!(rep, Choice9, 9, _0 L0, 1 _1 L1, 2 _2 L2, 3 _3 L3, 4 _4 L4, 5 _5 L5, 6 _6 L6, 7 _7 L7, ; 8 _8 L8);
    lib_choice!(rep, Choice10, 10, _0 L0, 1 _1 L1, 2 _2 L2, 3 _3 L3, 4 _4 L4, 5 _5 L5, 6 _6 L6, 7 _7 L7, 8 _8 L8, ; 9 _9 L9);
    lib_choice!(rep, Choice11, 11, _0 L0, 1 _1 L1, 2 _2 L2, 3 _3 L3, 4 _4 L4, 5 _5 L5, 6 _6 L6, 7 _7 L7, 8 _8 L8, 9 _9 L9, ; 10 _10 L10);
    lib_choice!(rep, Choice12, 12, _0 L0, 1 _1 L1, 2 _2 L2, 3 _3 L3, 4 _4 L4, 5 _5 L5, 6 _6 L6, 7 _7 L7, 8 _8 L8, 9 _9 L9, 10 _10 L10, ; 11 _11 L11);
}

/// The same node on `Span::new(text, a, b)`: what an accessor reports must describe the text inside the span.
fn parse_in_span<'i, N: TypedNode<'i, R>>(text: &'i str, a: usize, b: usize) -> Option<(usize, N)> {
    use pest_typed::{AsInput, Input};
    let mut st: Stack<Span<'i>> = Stack::new();
    let inp = Span::new(text, a, b)?.as_input();
    let mut tr = Tracker::<R>::new(inp);
    N::try_parse_partial_with(inp, &mut st, &mut tr).map(|(p, n)| (p.byte_offset(), n))
}

sw!(Ab, "ab");
fn on_spans(rep: &mut Report) {
    use pest_typed::Storage;
    rep.rules += 3;
    // NEWLINE: the reported kind is the kind of the text consumed inside the span
    for (text, a, b, exp) in [
        ("x\r\n", 1usize, 2usize, Some((2usize, NewLineType::CR))),
        ("x\r\n", 1, 3, Some((3, NewLineType::CRLF))),
        ("\r\n", 0, 1, Some((1, NewLineType::CR))),
        ("\n\r\n", 0, 1, Some((1, NewLineType::LF))),
        ("a\r\n", 1, 1, None),
    ] {
        rep.cases += 1;
        rep.nontrivial += 1;
        let got = parse_in_span::<NEWLINE>(text, a, b).map(|(e, n)| (e, n.content));
        if got != exp {
            bad(rep, "NEWLINE on Span", text, format!("{:?} for span {}..{}", exp, a, b), format!("{:?}", got));
        }
    }
    // a choice picks the first alternative that matches *inside the span*
    for (text, a, b, exp_alt, exp_end) in [("ab", 0usize, 1usize, Some(1usize), 1usize), ("ab", 0, 2, Some(0), 2), ("xab", 1, 2, Some(1), 2), ("ab", 0, 0, None, 0)] {
        rep.cases += 1;
        rep.nontrivial += 1;
        let got = parse_in_span::<pest_typed::choices::Choice2<Str<Ab>, Str<Sa>>>(text, a, b);
        let alt = got.as_ref().map(|(_, n)| if n._0().is_some() { 0 } else { 1 });
        let end = got.as_ref().map(|(e, _)| *e).unwrap_or(0);
        if alt != exp_alt || (exp_alt.is_some() && end != exp_end) {
            bad(rep, "Choice2<\"ab\",\"a\"> on Span", text, format!("alternative {:?} end {} for span {}..{}", exp_alt, exp_end, a, b), format!("alternative {:?} end {}", alt, end));
        }
    }
    // case-insensitive literal: the stored spelling is the text inside the span
    for (text, a, b, exp) in [("ABé", 0usize, 4usize, Some("ABé")), ("ABéx", 0, 2, None), ("xaBÉ", 1, 3, None), ("abÉ", 0, 4, None), ("xABÉ", 1, 5, None)] {
        rep.cases += 1;
        let got = parse_in_span::<Insens<Kw>>(text, a, b).map(|(_, n)| n.content.to_string());
        if got.as_deref() != exp {
            bad(rep, "Insens<\"abé\"> on Span", text, format!("{:?} for span {}..{}", exp, a, b), format!("{:?}", got));
        }
    }
    let _ = Ab.get_content();
    // case-insensitivity is about ASCII letters only: punctuation and digits have no other spelling
    rep.rules += 2;
    for (text, exp) in [("[ab]", Some("[ab]")), ("[AB]", Some("[AB]")), ("{ab}", None), ("[ab}", None), ("[\u{1}b]", None)] {
        rep.cases += 1;
        let got = parse::<Insens<KwP>>(text, &[]).map(|(_, n)| n.content.to_string());
        if got.as_deref() != exp {
            bad(rep, "Insens<\"[ab]\">", text, format!("{:?}", exp), format!("{:?}", got));
        }
    }
    for (text, exp) in [("x_1-", Some("x_1-")), ("X_1-", Some("X_1-")), ("x\u{7f}1-", None), ("x_\u{11}-", None), ("x_1\r", None)] {
        rep.cases += 1;
        let got = parse::<Insens<KwQ>>(text, &[]).map(|(_, n)| n.content.to_string());
        if got.as_deref() != exp {
            bad(rep, "Insens<\"x_1-\">", text, format!("{:?}", exp), format!("{:?}", got));
        }
    }
    // ASCII_HEX_DIGIT = '0'..'9' | 'a'..'f' | 'A'..'F': the accessor index follows that order
    rep.rules += 1;
    for c in "0123456789abcdefABCDEFgG:@`".chars() {
        rep.cases += 1;
        let s = c.to_string();
        let exp = if c.is_ascii_digit() { Some(0) } else if ('a'..='f').contains(&c) { Some(1) } else if ('A'..='F').contains(&c) { Some(2) } else { None };
        let got = parse::<pest_typed::predefined_node::ASCII_HEX_DIGIT>(&s, &[]).map(|(_, n)| {
            let v: Vec<usize> = [n._0().map(|x| x.content), n._1().map(|x| x.content), n._2().map(|x| x.content)]
                .iter()
                .enumerate()
                .filter(|(_, x)| **x == Some(c))
                .map(|(i, _)| i)
                .collect();
            if v.len() == 1 { v[0] } else { 99 }
        });
        if got != exp {
            bad(rep, "ASCII_HEX_DIGIT accessors", &s, format!("{:?}", exp), format!("{:?}", got));
        }
    }
}
sw!(KwP, "[ab]");
sw!(KwQ, "x_1-");

pub fn run(o: &Opts) -> Report {
    let mut rep = Report::default();
    lib_choices(&mut rep);
    on_spans(&mut rep);
    let chars: Vec<char> = if o.thorough {
        (0u32..=0x10FFFF).filter_map(char::from_u32).collect()
    } else {
        (0u32..0x3000).filter_map(char::from_u32).chain(['\u{FFFF}', '\u{10000}', '😀', '\u{10FFFF}']).collect()
    };
    // ranges over the four encoded lengths
    range::<'a', 'z'>(&mut rep, &chars);
    range::<'\u{80}', '\u{7ff}'>(&mut rep, &chars);
    range::<'a', '€'>(&mut rep, &chars);
    range::<'\u{800}', '\u{10FFFF}'>(&mut rep, &chars);
    range::<'😀', '😀'>(&mut rep, &chars);
    range::<'\u{0}', '\u{10FFFF}'>(&mut rep, &chars);
    // ANY
    rep.rules += 1;
    for &c in &chars {
        let s = format!("{}é", c);
        rep.cases += 1;
        match parse::<ANY>(&s, &[]) {
            Some((end, node)) => {
                rep.nontrivial += 1;
                if end != c.len_utf8() || node.content != c {
                    bad(&mut rep, "ANY", &s, format!("content {:?}", c), format!("content {:?} end {}", node.content, end));
                }
            }
            None => bad(&mut rep, "ANY", &s, "match".into(), "None".into()),
        }
    }
    // Unicode property nodes: the stored character is the consumed one
    {
        use pest_typed::predefined_node::unicode as u;
        macro_rules! prop {
            ($t:ident) => {
                rep.rules += 1;
                let f = pest::unicode::by_name(stringify!($t)).unwrap();
                for &c in &chars {
                    let s = format!("{}a", c);
                    rep.cases += 1;
                    let r = parse::<u::$t>(&s, &[]);
                    match r {
                        Some((end, node)) => {
                            rep.nontrivial += 1;
                            if !f(c) || end != c.len_utf8() || node.content != c {
                                bad(&mut rep, stringify!($t), &s, format!("content {:?}", c), format!("content {:?} end {}", node.content, end));
                            }
                        }
                        None => {
                            if f(c) {
                                bad(&mut rep, stringify!($t), &s, "match".into(), "None".into());
                            }
                        }
                    }
                }
            };
        }
        prop!(LETTER);
        prop!(UPPERCASE_LETTER);
        prop!(DECIMAL_NUMBER);
        prop!(CURRENCY_SYMBOL);
        prop!(WHITE_SPACE);
        prop!(HAN);
        prop!(EMOJI);
    }
    // case-insensitive strings: all spellings
    insens::<Kw>(&mut rep);
    insens::<Kw2>(&mut rep);
    // NEWLINE kinds
    rep.rules += 1;
    for (s, kind, len) in [("\r\nx", Some(NewLineType::CRLF), 2), ("\nx", Some(NewLineType::LF), 1), ("\r", Some(NewLineType::CR), 1), ("\rx", Some(NewLineType::CR), 1), ("\n\r", Some(NewLineType::LF), 1), ("x\n", None, 0), ("", None, 0)] {
        rep.cases += 1;
        let r = parse::<NEWLINE>(s, &[]);
        let got = r.map(|(e, n)| (e, n.content));
        let exp = kind.map(|k| (len, k));
        rep.nontrivial += 1;
        if got != exp {
            bad(&mut rep, "NEWLINE", s, format!("{:?}", exp), format!("{:?}", got));
        }
    }
    // PEEK / POP / PEEK_ALL / POP_ALL: span text = text consumed
    let inputs = enumerate::strings(&['a', 'b', 'é'], if o.thorough { 6 } else { 5 });
    let stacks: Vec<Vec<&str>> = vec![vec!["a"], vec!["é"], vec!["ab", "é"], vec!["", "b"], vec!["a", "b", "é"], vec![""]];
    for st in &stacks {
        for input in &inputs {
            macro_rules! span_node {
                ($t:ty, $name:literal, $text:expr) => {
                    rep.cases += 1;
                    let exp_text: String = $text;
                    match parse::<$t>(input, st) {
                        Some((end, node)) => {
                            rep.nontrivial += 1;
                            let consumed = &input[..end];
                            if consumed != exp_text || node.span.as_str() != consumed {
                                bad(&mut rep, $name, input, format!("span text {:?}", consumed), format!("span text {:?} (stack {:?})", node.span.as_str(), st));
                            }
                        }
                        None => {
                            if input.starts_with(&exp_text) {
                                bad(&mut rep, $name, input, "match".into(), format!("None (stack {:?})", st));
                            }
                        }
                    }
                };
            }
            span_node!(PEEK, "PEEK", st.last().unwrap().to_string());
            span_node!(POP, "POP", st.last().unwrap().to_string());
            span_node!(PEEK_ALL, "PEEK_ALL", st.iter().rev().cloned().collect());
            span_node!(POP_ALL, "POP_ALL", st.iter().rev().cloned().collect());
        }
    }
    rep.rules += 4;
    // Skip (skip-until) and SkipChar: span text = text consumed
    let inputs2 = enumerate::strings(&['a', 'b', '€', 'x'], if o.thorough { 6 } else { 5 });
    for input in &inputs2 {
        rep.cases += 1;
        let (end, node) = parse::<Skip<Needles>>(input, &[]).expect("skip-until never fails");
        let exp_end = (0..=input.len()).filter(|i| input.is_char_boundary(*i)).find(|i| input[*i..].starts_with("€a") || input[*i..].starts_with('b')).unwrap_or(input.len());
        rep.nontrivial += 1;
        if end != exp_end || node.span.as_str() != &input[..end] {
            bad(&mut rep, "Skip<[\"€a\",\"b\"]>", input, format!("end {} text {:?}", exp_end, &input[..exp_end]), format!("end {} text {:?}", end, node.span.as_str()));
        }
        rep.cases += 1;
        let r = parse::<SkipChar<2>>(input, &[]);
        let exp = input.char_indices().nth(1).map(|(i, c)| i + c.len_utf8());
        match (r, exp) {
            (Some((end, node)), Some(e)) if end == e && node.span.as_str() == &input[..e] => {}
            (None, None) => {}
            (got, _) => bad(&mut rep, "SkipChar<2>", input, format!("{:?}", exp), format!("{:?}", got.map(|g| g.0))),
        }
        rep.cases += 1;
        // PUSH(x) ~ PEEK through the generic pair: the pushed text is the consumed text
        if let Some((end, node)) = parse::<(Push<Str<Sa>>, PEEK)>(input, &[]) {
            if end != 2 || node.1.span.as_str() != "a" {
                bad(&mut rep, "(Push<\"a\">, PEEK)", input, "PEEK span \"a\"".into(), format!("{:?}", node.1.span.as_str()));
            }
        }
    }
    rep.rules += 3;
    if rep.samples.is_empty() {
        let mut j = J::obj();
        j.set("node", J::s("Insens<\"abé\">"));
        j.set("input", J::s("ABéx"));
        j.set("content", J::s("ABé"));
        rep.sample(j);
    }
    rep
}

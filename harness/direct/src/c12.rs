//! C12: Position::line_col / line_of agree with pest::Position (exhaustive over short strings).
use crate::common::{par, viol, Opts};
use pegx::report::Report;
use refpeg::enumerate;
use refpeg::json::J;

fn check(s: &str, rep: &mut Report) {
    for o in 0..=s.len() + 1 {
        rep.cases += 1;
        let p = pest::Position::new(s, o);
        let t = pest_typed::Position::new(s, o);
        if p.is_some() != t.is_some() {
            rep.violation(viol("C12", "position-new-acceptance", s, format!("Position::new(s,{})", o), o, o, format!("{}", p.is_some()), format!("{}", t.is_some()), String::new()));
            continue;
        }
        let (p, t) = match (p, t) {
            (Some(p), Some(t)) => (p, t),
            _ => continue,
        };
        if s.contains('\n') || s.contains('\r') {
            rep.nontrivial += 1;
        }
        let lc = std::panic::catch_unwind(|| (t.line_col(), t.line_of().to_string(), t.pos()));
        let exp = (p.line_col(), p.line_of().to_string(), p.pos());
        match lc {
            Ok(got) => {
                rep.outcome(format!("{:?}", exp.0));
                if got != exp {
                    let sig = if got.0 != exp.0 { "line-col" } else if got.1 != exp.1 { "line-of" } else { "pos" };
                    rep.violation(viol("C12", sig, s, format!("Position::new(s,{})", o), o, o, format!("{:?}", exp), format!("{:?}", got), String::new()));
                } else if rep.samples.len() < 3 && s.contains("\r\n") && o > 2 {
                    let mut j = J::obj();
                    j.set("string", J::s(&enumerate::escape(s)));
                    j.set("offset", J::i(o as u64));
                    j.set("line_col", J::s(&format!("{:?}", got.0)));
                    j.set("line_of", J::s(&enumerate::escape(&got.1)));
                    rep.sample(j);
                }
            }
            Err(_) => rep.violation(viol("C12", "panic", s, format!("Position::new(s,{})", o), o, o, format!("{:?}", exp), "panic".into(), String::new())),
        }
    }
}

pub fn run(o: &Opts) -> Report {
    let alpha = ['\n', '\r', 'a', 'é', '€', '😀'];
    let n = if o.thorough { 7 } else { 5 };
    let strings = enumerate::strings(&alpha, n);
    let mut rep = par(&strings, |s, rep| check(s, rep));
    rep.max_len_done = n;
    rep.rules = strings.len() as u64;
    // characters by encoding (bytes 0x80 / 0xBF, first and last lead bytes, ...), each in four small contexts
    let sweep = crate::common::encoding_sweep(o.thorough);
    let r3 = par(&sweep, |c, rep| {
        for s in [format!("{}", c), format!("{}a", c), format!("a{}\n{}b", c, c), format!("{}\r\n{}", c, c)] {
            check(&s, rep);
        }
    });
    rep.cells.insert("characters_swept_by_encoding".into(), sweep.len() as u64);
    rep.merge(r3, 8);
    // supplementary, NOT deciding: long pseudo-random texts (sampling, labelled as such)
    let mut seed: u64 = std::env::var("VERIF_SEED").ok().and_then(|s| s.parse().ok()).unwrap_or(0) ^ 0x9e3779b97f4a7c15;
    let mut sampled = 0u64;
    let mut r2 = Report::default();
    for _ in 0..40 {
        let mut s = String::new();
        for _ in 0..1500 {
            seed = seed.wrapping_mul(6364136223846793005).wrapping_add(1442695040888963407);
            s.push(alpha[((seed >> 33) % 6) as usize]);
        }
        let bs = enumerate::boundaries(&s);
        for &o in bs.iter().step_by(7) {
            let (p, t) = (pest::Position::new(&s, o).unwrap(), pest_typed::Position::new(&s, o).unwrap());
            sampled += 1;
            if p.line_col() != t.line_col() || p.line_of() != t.line_of() {
                r2.violation(viol("C12", "long-text", "<sampled long text>", format!("offset {}", o), o, o, format!("{:?}", p.line_col()), format!("{:?}", t.line_col()), "found by the supplementary sampling pass".into()));
            }
        }
    }
    rep.cells.insert("supplementary_sampled_positions_not_deciding".into(), sampled);
    rep.merge(r2, 8);
    rep
}

fn main(){}

//! E2 `direct`: bounded-exhaustive explorer over the runtime crate used directly (no derive).
//! Lenses: C06 (stack built-ins), C10t (tracker in isolation), C12, C13, C14, C17l (leaf nodes), C19.

mod c06;
mod c10t;
mod c12;
mod c13;
mod c14;
mod c17l;
mod c19;
mod common;

fn main() {
    let args: Vec<String> = std::env::args().collect();
    let mut lens = String::new();
    let mut out = None;
    let mut thorough = false;
    let mut only: Option<String> = None;
    let mut i = 1;
    while i < args.len() {
        match args[i].as_str() {
            "--lens" => {
                lens = args[i + 1].clone();
                i += 1;
            }
            "--out" => {
                out = Some(args[i + 1].clone());
                i += 1;
            }
            "--tier" => {
                thorough = args[i + 1] == "thorough";
                i += 1;
            }
            "--only" => {
                only = Some(args[i + 1].clone());
                i += 1;
            }
            _ => {}
        }
        i += 1;
    }
    if std::env::var("VERIF_SHOW_PANICS").is_err() {
        std::panic::set_hook(Box::new(|_| {}));
    }
    let t0 = std::time::Instant::now();
    let o = common::Opts { thorough, only };
    let rep = match lens.as_str() {
        "C06" => c06::run(&o),
        "C10" => c10t::run(&o),
        "C12" => c12::run(&o),
        "C13" => c13::run(&o),
        "C14" => c14::run(&o),
        "C17" => c17l::run(&o),
        "C19" => c19::run(&o),
        _ => {
            eprintln!("unknown lens");
            std::process::exit(2);
        }
    };
    let j = rep.to_json(&lens, t0.elapsed().as_secs_f64(), false);
    match out {
        Some(p) => std::fs::write(p, j.to_string()).unwrap(),
        None => println!("{}", j.to_string()),
    }
    std::process::exit(if rep.violations.is_empty() { 0 } else { 1 });
}

//! C14: displaying any Span / Position never panics and marks the right text.
//!
//! The oracle is computed independently from the statement: which input lines must be shown, with
//! which numbers and texts, and in which display cells (unicode-width, CJK) the markers must lie.

use crate::common::{par, viol, Opts};
use pegx::report::Report;
use refpeg::enumerate;
use refpeg::json::J;
use std::fmt::Write;
use unicode_width::UnicodeWidthStr;

fn picture(c: char) -> char {
    match c as u32 {
        x @ 0..=0x1f => char::from_u32(0x2400 + x).unwrap(),
        0x7f => '\u{2421}',
        _ => c,
    }
}
fn vis(s: &str) -> String {
    s.chars().map(picture).collect()
}
fn w(s: &str) -> usize {
    UnicodeWidthStr::width_cjk(vis(s).as_str())
}

/// Lines of the input: (start offset, text including its terminator).
fn lines_of(s: &str) -> Vec<(usize, &str)> {
    let mut v = vec![];
    let mut start = 0;
    for (i, b) in s.bytes().enumerate() {
        if b == b'\n' {
            v.push((start, &s[start..=i]));
            start = i + 1;
        }
    }
    if start < s.len() {
        v.push((start, &s[start..]));
    }
    v
}

#[derive(Debug, Default)]
struct Layout {
    /// (number, text) of the numbered lines, in order
    numbered: Vec<(usize, String)>,
    /// marker rows: (index in output of the row, column of first marker char, marker string)
    top: Option<(usize, String)>,
    bottom: Option<(usize, String)>,
    elided: bool,
    bad: Option<String>,
}

fn parse_layout(out: &str) -> Layout {
    let mut l = Layout::default();
    let mut seen_numbered = false;
    for row in out.split_terminator('\n') {
        let bar = match row.find(" |") {
            Some(b) => b,
            None => {
                l.bad = Some(format!("row without bar: {:?}", row));
                return l;
            }
        };
        let num = row[..bar].trim();
        let rest = &row[bar + 2..];
        let content = rest.strip_prefix(' ').unwrap_or(rest);
        if !num.is_empty() {
            match num.parse::<usize>() {
                Ok(n) => {
                    l.numbered.push((n, content.to_string()));
                    seen_numbered = true;
                }
                Err(_) => {
                    l.bad = Some(format!("bad number field {:?}", num));
                    return l;
                }
            }
        } else if content.trim() == "..." {
            l.elided = true;
        } else {
            let trimmed = content.trim_start_matches(' ');
            let col = content.len() - trimmed.len();
            let marker = trimmed.trim_end().to_string();
            if marker.is_empty() {
                continue;
            }
            if !seen_numbered {
                l.top = Some((col, marker));
            } else {
                l.bottom = Some((col, marker));
            }
        }
    }
    l
}

struct Expect {
    /// acceptable (first line index, last line index) pairs, 0-based
    lines: Vec<(usize, usize)>,
}

fn line_index_of(lines: &[(usize, &str)], off: usize) -> Option<usize> {
    lines.iter().position(|(st, t)| *st <= off && off < *st + t.len())
}

fn expect_for(s: &str, a: usize, b: usize) -> Expect {
    let lines = lines_of(s);
    let n = lines.len();
    let mut acc = vec![];
    let at_end_choices = |acc: &mut Vec<usize>| {
        // the offset at end of input belongs to the last line; when the input ends with LF the
        // statement does not decide between the line before and the empty line after it
        if n == 0 {
            acc.push(0);
        } else {
            acc.push(n - 1);
            if s.ends_with('\n') {
                acc.push(n);
            }
        }
    };
    if a == b {
        let mut c = vec![];
        match line_index_of(&lines, a) {
            Some(i) => c.push(i),
            None => at_end_choices(&mut c),
        }
        for i in c {
            acc.push((i, i));
        }
    } else {
        let first = line_index_of(&lines, a).unwrap();
        let last_char_start = s[..b].char_indices().last().unwrap().0;
        let last = line_index_of(&lines, last_char_start).unwrap();
        acc.push((first, last));
    }
    Expect { lines: acc }
}

fn line_text(s: &str, idx: usize) -> String {
    let lines = lines_of(s);
    lines.get(idx).map(|x| vis(x.1)).unwrap_or_default()
}

/// Classifier for known findings: looks only at the counterexample and at *how* it fails.
fn classify(s: &str, a: usize, _b: usize, is_pos: bool, one_line_early: bool, n_problems: usize) -> &'static str {
    let lines = lines_of(s);
    if !is_pos && a > 0 && lines.iter().any(|(st, _)| *st == a) && one_line_early && n_problems == 1 {
        // the only defect: the rendering starts on the line before the one that holds the first character
        return "rendering-starts-one-line-early-when-span-starts-at-first-byte-of-a-line";
    }
    "display-mismatch"
}

fn check_one(s: &str, a: usize, b: usize, is_pos: bool, rep: &mut Report) {
    rep.cases += 1;
    let what = if is_pos { format!("Position({})", a) } else { format!("Span({}..{})", a, b) };
    // default option
    let shown = std::panic::catch_unwind(|| {
        if is_pos {
            pest_typed::Position::new(s, a).unwrap().to_string()
        } else {
            pest_typed::Span::new(s, a, b).unwrap().to_string()
        }
    });
    // recording option
    let rec = std::panic::catch_unwind(|| {
        let mut buf = String::new();
        let opt = pest_typed::FormatOption::new::<String>(
            |t: &str, f: &mut String| write!(f, "{{{}}}", t),
            |t: &str, f: &mut String| write!(f, "[{}]", t),
            |t: &str, f: &mut String| write!(f, "<{}>", t),
        );
        let r = if is_pos {
            pest_typed::Position::new(s, a).unwrap().display(&mut buf, opt)
        } else {
            pest_typed::Span::new(s, a, b).unwrap().display(&mut buf, opt)
        };
        (r.is_ok(), buf)
    });
    let shown = match (shown, rec) {
        (Ok(x), Ok((true, r))) => (x, r),
        _ => {
            rep.violation(viol("C14", "panic", s, what, a, b, "a rendering".into(), "panic".into(), String::new()));
            return;
        }
    };
    let (plain, recorded) = shown;
    if !s.is_empty() && (b > a || a < s.len()) {
        rep.nontrivial += 1;
    }
    let lay = parse_layout(&plain);
    let exp = expect_for(s, a, b);
    let mut problems: Vec<String> = vec![];
    let mut one_line_early = false;
    if let Some(bad) = &lay.bad {
        problems.push(bad.clone());
    }
    if lay.numbered.is_empty() {
        problems.push("no numbered line shown".into());
    } else {
        // numbers and texts
        let mut prev = 0;
        for (n, text) in &lay.numbered {
            if *n == 0 || *n <= prev {
                problems.push(format!("line numbers not increasing: {}", n));
            }
            prev = *n;
            if *text != line_text(s, *n - 1) {
                problems.push(format!("line {} shown as {:?}, input line is {:?}", n, text, line_text(s, *n - 1)));
            }
        }
        let first = lay.numbered.first().unwrap().0 - 1;
        let last = lay.numbered.last().unwrap().0 - 1;
        if !exp.lines.contains(&(first, last)) {
            one_line_early = exp.lines.iter().any(|(x, y)| *x == first + 1 && (*y == last || (a == b && *y == last + 1)));
            problems.push(format!("shows lines {}..={} (1-based), expected one of {:?}", first + 1, last + 1, exp.lines.iter().map(|(x, y)| (x + 1, y + 1)).collect::<Vec<_>>()));
        } else {
            // markers
            let lines = lines_of(s);
            let line_start = |i: usize| lines.get(i).map(|x| x.0).unwrap_or(s.len());
            if first == last {
                let c1 = w(&s[line_start(first).min(a)..a]);
                if a < b {
                    let c2 = c1 + w(&s[a..b]);
                    match &lay.bottom {
                        Some((col, m)) if m.chars().all(|c| c == '^') => {
                            if *col != c1 || col + m.len() != c2 {
                                problems.push(format!("markers cover cells {}..{}, the span covers {}..{}", col, col + m.len(), c1, c2));
                            }
                        }
                        other => problems.push(format!("marker row {:?}", other)),
                    }
                } else {
                    match &lay.bottom {
                        None if !is_pos => {}
                        Some((col, m)) if m == "^" && *col == c1 => {}
                        other => problems.push(format!("marker row {:?}, expected a single marker at cell {}{}", other, c1, if is_pos { "" } else { " or none" })),
                    }
                }
                if lay.top.is_some() {
                    problems.push("unexpected top marker row".into());
                }
            } else {
                // first character cells, last character cells
                let fc = s[a..].chars().next().unwrap();
                let c1 = w(&s[line_start(first)..a]);
                let c1e = c1 + w(&fc.to_string());
                let lcs = s[..b].char_indices().last().unwrap().0;
                let c2 = w(&s[line_start(last)..lcs]);
                let c2e = c2 + w(&s[lcs..b]);
                match &lay.top {
                    Some((col, m)) if m == "v" && *col >= c1 && *col < c1e.max(c1 + 1) => {}
                    other => problems.push(format!("top marker {:?}, first character occupies cells {}..{}", other, c1, c1e)),
                }
                match &lay.bottom {
                    Some((col, m)) if m == "^" && *col >= c2 && *col < c2e.max(c2 + 1) => {}
                    other => problems.push(format!("bottom marker {:?}, last character occupies cells {}..{}", other, c2, c2e)),
                }
            }
        }
    }
    // recording option: pieces given to the span formatter concatenate to the span text
    if !is_pos && problems.is_empty() {
        let mut pieces = String::new();
        let mut rest = recorded.as_str();
        while let Some(i) = rest.find('{') {
            let j = rest[i..].find('}').map(|j| i + j).unwrap_or(rest.len());
            pieces.push_str(&rest[i + 1..j]);
            rest = &rest[(j + 1).min(rest.len())..];
        }
        let elided = lay.elided;
        if !elided && pieces != vis(&s[a..b]) {
            problems.push(format!("span formatter received {:?}, span text is {:?}", pieces, vis(&s[a..b])));
        }
        // every number and bar went through the number formatter, every marker through the marker formatter
        let strip: String = recorded.chars().filter(|c| !"{}[]<>".contains(*c)).collect();
        if strip != plain {
            problems.push("custom-option output differs from default output beyond the decorations".into());
        }
    }
    rep.outcome(format!("{}:{}:{}", lay.numbered.len(), lay.top.is_some(), lay.elided));
    if !problems.is_empty() {
        let sig = classify(s, a, b, is_pos, one_line_early, problems.len());
        rep.violation(viol("C14", sig, s, what, a, b, format!("lines {:?}", exp.lines.iter().map(|(x, y)| (x + 1, y + 1)).collect::<Vec<_>>()), plain.clone(), problems.join("; ")));
    } else if rep.samples.len() < 3 && lay.top.is_some() && s.contains('中') {
        let mut j = J::obj();
        j.set("string", J::s(&enumerate::escape(s)));
        j.set("what", J::s(&what));
        j.set("rendering", J::s(&plain));
        rep.sample(j);
    }
}

fn check(s: &String, rep: &mut Report) {
    let bs = enumerate::boundaries(s);
    for (i, &a) in bs.iter().enumerate() {
        check_one(s, a, a, true, rep);
        for &b in &bs[i..] {
            check_one(s, a, b, false, rep);
        }
    }
}

pub fn run(o: &Opts) -> Report {
    let alpha = ['\n', '\r', '\t', 'a', '中', 'é'];
    let n = if o.thorough { 6 } else { 5 };
    let mut strings = enumerate::strings(&alpha, n);
    // texts with many lines: line-count classes 1..7+ and the `...` elision
    for nl in 6..=12usize {
        for variant in 0..3 {
            let mut t = String::new();
            for k in 0..nl {
                match (k + variant) % 3 {
                    0 => t.push_str("a中"),
                    1 => t.push_str("é"),
                    _ => {}
                }
                if k + 1 < nl || variant == 1 {
                    t.push_str(if variant == 2 && k % 2 == 0 { "\r\n" } else { "\n" });
                }
            }
            strings.push(t);
        }
    }
    // characters by encoding (and by display width: zero-width, wide, ambiguous), each in three small contexts
    let sweep = crate::common::encoding_sweep(o.thorough);
    // only characters that occupy display cells: the statement speaks of the cells of the marked characters,
    // a zero-width character has none (and the formatter then draws no marker, which nothing forbids)
    let sweep: Vec<char> = sweep.into_iter().filter(|c| !c.is_control() && unicode_width::UnicodeWidthChar::width_cjk(*c).unwrap_or(0) >= 1).collect();
    for c in &sweep {
        strings.push(format!("{}", c));
        strings.push(format!("a{}\n{}b", c, c));
        strings.push(format!("{}\t{}", c, c));
    }
    if let Some(only) = &o.only {
        strings = vec![only.clone()];
    }
    let mut rep = par(&strings, check);
    rep.cells.insert("characters_swept_by_encoding".into(), sweep.len() as u64);
    rep.max_len_done = n;
    rep.rules = strings.len() as u64;
    rep
}

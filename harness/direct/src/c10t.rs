//! C10 (E2 half): the tracker in isolation.  All well-nested event sequences (ordered forests of
//! rule attempts and predicates) up to a bound are driven straight into
//! `Tracker::{record_during_with, positive_during, negative_during}`; the harness-chosen outcomes
//! are the truth the report is compared with.

use crate::common::{par, viol, Opts};
use pegx::report::Report;
use pest_typed::tracker::Tracker;
use pest_typed::Position;
use refpeg::json::J;

#[derive(Clone, Copy, Debug, Eq, Hash, Ord, PartialEq, PartialOrd)]
#[allow(clippy::upper_case_acronyms)]
pub enum R {
    EOI,
    A,
    B,
}

const INPUT: &str = "é\r\nb€";
const POSITIONS: [usize; 3] = [0, 2, 4];

#[derive(Clone, Debug)]
enum Ev {
    Rule { rule: R, pos: usize, ok: bool, kids: Vec<Ev> },
    Pos(Vec<Ev>),
    Neg(Vec<Ev>),
}

fn labels() -> Vec<Ev> {
    let mut v = vec![];
    for rule in [R::A, R::B] {
        for pos in POSITIONS {
            for ok in [true, false] {
                v.push(Ev::Rule { rule, pos, ok, kids: vec![] });
            }
        }
    }
    v.push(Ev::Pos(vec![]));
    v.push(Ev::Neg(vec![]));
    v
}

fn with_kids(e: &Ev, kids: Vec<Ev>) -> Ev {
    match e {
        Ev::Rule { rule, pos, ok, .. } => Ev::Rule { rule: *rule, pos: *pos, ok: *ok, kids },
        Ev::Pos(_) => Ev::Pos(kids),
        Ev::Neg(_) => Ev::Neg(kids),
    }
}

/// All ordered forests with exactly `n` nodes.
fn forests(n: usize, labels: &[Ev], memo: &mut Vec<Option<Vec<Vec<Ev>>>>) -> Vec<Vec<Ev>> {
    if let Some(Some(v)) = memo.get(n) {
        return v.clone();
    }
    let mut out = vec![];
    if n == 0 {
        out.push(vec![]);
    } else {
        // first tree has k nodes (1 root + k-1 in its children forest), the rest n-k
        for k in 1..=n {
            let kids = forests(k - 1, labels, memo);
            let rest = forests(n - k, labels, memo);
            for l in labels {
                for kf in &kids {
                    let root = with_kids(l, kf.clone());
                    for r in &rest {
                        let mut f = vec![root.clone()];
                        f.extend(r.iter().cloned());
                        out.push(f);
                    }
                }
            }
        }
    }
    while memo.len() <= n {
        memo.push(None);
    }
    memo[n] = Some(out.clone());
    out
}

fn drive<'i>(t: &mut Tracker<'i, R>, f: &[Ev]) {
    for e in f {
        match e {
            Ev::Rule { rule, pos, ok, kids } => {
                let p = Position::new(INPUT, *pos).unwrap();
                let _ = t.record_during_with(
                    p,
                    |t| {
                        drive(t, kids);
                        if *ok {
                            Some(())
                        } else {
                            None
                        }
                    },
                    *rule,
                );
            }
            Ev::Pos(kids) => t.positive_during(|t| drive(t, kids)),
            Ev::Neg(kids) => t.negative_during(|t| drive(t, kids)),
        }
    }
}

fn collect_truth(f: &[Ev], out: &mut Vec<(R, usize, bool)>) {
    for e in f {
        match e {
            Ev::Rule { rule, pos, ok, kids } => {
                out.push((*rule, *pos, *ok));
                collect_truth(kids, out);
            }
            Ev::Pos(k) | Ev::Neg(k) => collect_truth(k, out),
        }
    }
}

fn show(f: &[Ev]) -> String {
    let mut s = String::new();
    for e in f {
        match e {
            Ev::Rule { rule, pos, ok, kids } => s.push_str(&format!("{:?}@{}{}[{}] ", rule, pos, if *ok { "+" } else { "-" }, show(kids))),
            Ev::Pos(k) => s.push_str(&format!("&[{}] ", show(k))),
            Ev::Neg(k) => s.push_str(&format!("![{}] ", show(k))),
        }
    }
    s.trim_end().to_string()
}

fn check(f: &Vec<Ev>, rep: &mut Report) {
    rep.cases += 1;
    let what = show(f);
    let run = || {
        let mut t = Tracker::<R>::new(Position::from_start(INPUT));
        drive(&mut t, f);
        t
    };
    let r = std::panic::catch_unwind(|| {
        let (pos, attempts) = run().finish();
        let lists: Vec<(Option<R>, Vec<R>, Vec<R>)> = attempts.into_iter().map(|(u, (p, n, _))| (u, p, n)).collect();
        let err = run().collect();
        let text = err.to_string();
        let loc = match err.location {
            pest::error::InputLocation::Pos(p) => p,
            pest::error::InputLocation::Span((p, _)) => p,
        };
        (pos.pos(), lists, loc, text)
    });
    let (pos, lists, loc, text) = match r {
        Ok(x) => x,
        Err(_) => {
            rep.violation(viol("C10", "tracker-panic", INPUT, what, 0, 0, "a report".into(), "panic".into(), String::new()));
            return;
        }
    };
    // determinism
    let again = std::panic::catch_unwind(|| run().collect().to_string());
    if again.ok().as_deref() != Some(text.as_str()) {
        rep.violation(viol("C10", "tracker-report-not-deterministic", INPUT, what.clone(), 0, 0, text.clone(), "different".into(), String::new()));
    }
    let mut truth = vec![];
    collect_truth(f, &mut truth);
    if !(pos <= INPUT.len() && INPUT.is_char_boundary(pos)) || loc != pos {
        rep.violation(viol("C10", "tracker-location", INPUT, what.clone(), 0, 0, "a boundary inside the input, equal to the raw position".into(), format!("raw {} error {}", pos, loc), String::new()));
    }
    let mut listed = 0;
    for (_, positives, negatives) in &lists {
        for r in positives {
            listed += 1;
            if !truth.iter().any(|(tr, tp, ok)| tr == r && *tp == pos && !*ok) {
                rep.violation(viol("C10", "tracker-expected-rule-did-not-fail-there", INPUT, what.clone(), 0, 0, format!("a failed attempt of {:?} at {}", r, pos), format!("{:?}", lists), text.clone()));
            }
        }
        for r in negatives {
            listed += 1;
            if !truth.iter().any(|(tr, tp, ok)| tr == r && *tp == pos && *ok) {
                rep.violation(viol("C10", "tracker-unexpected-rule-did-not-match-there", INPUT, what.clone(), 0, 0, format!("a successful attempt of {:?} at {}", r, pos), format!("{:?}", lists), text.clone()));
            }
        }
    }
    if listed > 0 {
        rep.nontrivial += 1;
    }
    rep.outcome(format!("{}:{:?}", pos, lists));
    if rep.samples.len() < 2 && listed >= 2 {
        let mut j = J::obj();
        j.set("events", J::s(&what));
        j.set("position", J::i(pos as u64));
        j.set("attempts", J::s(&format!("{:?}", lists)));
        rep.sample(j);
    }
}

pub fn run(o: &Opts) -> Report {
    let labels = labels();
    let mut memo = vec![];
    let nmax = if o.thorough { 4 } else { 3 };
    let mut all: Vec<Vec<Ev>> = vec![];
    for n in 1..=nmax {
        all.extend(forests(n, &labels, &mut memo));
    }
    let mut rep = par(&all, check);
    rep.rules = all.len() as u64;
    rep.cells.insert("max_nodes_per_forest".into(), nmax as u64);
    rep
}

use crate::common::Opts;
use pegx::report::Report;
pub fn run(_o: &Opts) -> Report {
    Report::default()
}

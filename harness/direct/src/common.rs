use pegx::report::{Report, Violation};
use std::sync::Mutex;

pub struct Opts {
    pub thorough: bool,
    pub only: Option<String>,
}

pub fn viol(lens: &str, sig: &str, input: &str, form: String, a: usize, b: usize, expected: String, actual: String, note: String) -> Violation {
    Violation {
        lens: lens.to_string(),
        signature: sig.to_string(),
        grammar: "direct".into(),
        family: "direct".into(),
        options: String::new(),
        rule: form.clone(),
        rule_def: form.clone(),
        input: refpeg::enumerate::escape(input),
        form,
        a,
        b,
        init: vec![],
        expected,
        actual,
        note,
    }
}

/// Run `f` over the items on 16 threads, merging the reports.
pub fn par<T: Sync>(items: &[T], f: impl Fn(&T, &mut Report) + Sync) -> Report {
    let total = Mutex::new(Report::default());
    let next = std::sync::atomic::AtomicUsize::new(0);
    let chunk = (items.len() / 256).max(1);
    std::thread::scope(|s| {
        for _ in 0..16 {
            s.spawn(|| loop {
                let k = next.fetch_add(chunk, std::sync::atomic::Ordering::SeqCst);
                if k >= items.len() {
                    break;
                }
                let mut rep = Report::default();
                for it in &items[k..(k + chunk).min(items.len())] {
                    f(it, &mut rep);
                }
                total.lock().unwrap().merge(rep, 8);
            });
        }
    });
    total.into_inner().unwrap()
}

use pegx::report::{Report, Violation};
use std::sync::Mutex;

pub struct Opts {
    pub thorough: bool,
    pub only: Option<String>,
}

pub fn viol(lens: &str, sig: &str, input: &str, form: String, a: usize, b: usize, expected: String, actual: String, note: String) -> Violation {
    Violation {
        lens: lens.to_string(),
        signature: sig.to_string(),
        grammar: "direct".into(),
        family: "direct".into(),
        options: String::new(),
        rule: form.clone(),
        rule_def: form.clone(),
        input: refpeg::enumerate::escape(input),
        form,
        a,
        b,
        init: vec![],
        expected,
        actual,
        note,
    }
}

/// Run `f` over the items on 16 threads, merging the reports.
pub fn par<T: Sync>(items: &[T], f: impl Fn(&T, &mut Report) + Sync) -> Report {
    let total = Mutex::new(Report::default());
    let next = std::sync::atomic::AtomicUsize::new(0);
    let chunk = (items.len() / 256).max(1);
    std::thread::scope(|s| {
        for _ in 0..16 {
            s.spawn(|| loop {
                let k = next.fetch_add(chunk, std::sync::atomic::Ordering::SeqCst);
                if k >= items.len() {
                    break;
                }
                let mut rep = Report::default();
                for it in &items[k..(k + chunk).min(items.len())] {
                    f(it, &mut rep);
                }
                total.lock().unwrap().merge(rep, 8);
            });
        }
    });
    total.into_inner().unwrap()
}

/// `input` embedded in a longer text (`PAD_BEFORE` in front, `PAD_AFTER` behind: text that the nodes under test
/// would happily match), leaked once per distinct input: a node run on `Span::new(padded, PAD_BEFORE.len(),
/// PAD_BEFORE.len() + input.len())` must behave exactly as on `input` alone.
pub const PAD_BEFORE: &str = "b ";
pub const PAD_AFTER: &str = "abab a";
pub fn padded_of(input: &str) -> &'static str {
    static MAP: Mutex<Option<std::collections::HashMap<String, &'static str>>> = Mutex::new(None);
    let mut g = MAP.lock().unwrap();
    let m = g.get_or_insert_with(Default::default);
    if let Some(x) = m.get(input) {
        return x;
    }
    let leaked: &'static str = Box::leak(format!("{}{}{}", PAD_BEFORE, input, PAD_AFTER).into_boxed_str());
    m.insert(input.to_string(), leaked);
    leaked
}

/// Characters chosen by their encoding rather than their length class: every 2-byte character, strides through the
/// 3- and 4-byte planes (thorough: every 3-byte character), and the characters whose UTF-8 bytes hit the extremes
/// 0x80 / 0xBF of the continuation range or the first / last lead bytes.
pub fn encoding_sweep(thorough: bool) -> Vec<char> {
    let mut v: Vec<char> = vec![];
    for cp in 0x7fu32..0x800 {
        v.extend(char::from_u32(cp));
    }
    let (s3, s4) = if thorough { (1, 17) } else { (37, 1009) };
    for cp in (0x800u32..0x10000).step_by(s3) {
        v.extend(char::from_u32(cp));
    }
    for cp in (0x10000u32..0x110000).step_by(s4) {
        v.extend(char::from_u32(cp));
    }
    for cp in [0x800u32, 0xfff, 0x1000, 0xd7ff, 0xe000, 0xfeff, 0xfffd, 0xffff, 0x10000, 0x1f4bf, 0x3ffff, 0x40000, 0xfffff, 0x100000, 0x10ffff, 0x2028, 0x2029, 0x85, 0x0b, 0x0c] {
        v.extend(char::from_u32(cp));
    }
    v.sort();
    v.dedup();
    v
}

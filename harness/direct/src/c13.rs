//! C13: Span operations agree with pest's Span (exhaustive over short strings).
use crate::common::{par, viol, Opts};
use pegx::report::Report;
use refpeg::enumerate;
use refpeg::json::J;
use std::collections::hash_map::DefaultHasher;
use std::hash::{Hash, Hasher};
use std::ops::Bound;

fn h<T: Hash>(t: &T) -> u64 {
    let mut s = DefaultHasher::new();
    t.hash(&mut s);
    s.finish()
}

fn pr(sp: Option<pest::Span>) -> Option<(usize, usize)> {
    sp.map(|s| (s.start(), s.end()))
}
fn tr(sp: Option<pest_typed::Span>) -> Option<(usize, usize)> {
    sp.map(|s| (s.start(), s.end()))
}

fn check(s: &str, rep: &mut Report) {
    let n = s.len();
    let mut valid: Vec<(usize, usize)> = vec![];
    for a in 0..=n + 1 {
        for b in 0..=n + 1 {
            rep.cases += 1;
            let p = pest::Span::new(s, a, b);
            let t = pest_typed::Span::new(s, a, b);
            if p.is_some() != t.is_some() {
                rep.violation(viol("C13", "span-new-acceptance", s, format!("Span::new(s,{},{})", a, b), a, b, format!("{}", p.is_some()), format!("{}", t.is_some()), String::new()));
                continue;
            }
            let (p, t) = match (p, t) {
                (Some(p), Some(t)) => (p, t),
                _ => continue,
            };
            valid.push((a, b));
            rep.nontrivial += 1;
            let what = format!("Span::new(s,{},{})", a, b);
            // accessors
            let ps = p.clone().split();
            let ts = t.split();
            let basic_p = (p.start(), p.end(), p.as_str(), p.start_pos().pos(), p.end_pos().pos(), ps.0.pos(), ps.1.pos(), p.get_input());
            let basic_t = (t.start(), t.end(), t.as_str(), t.start_pos().pos(), t.end_pos().pos(), ts.0.pos(), ts.1.pos(), t.get_input());
            if basic_p != basic_t {
                rep.violation(viol("C13", "accessors", s, what.clone(), a, b, format!("{:?}", basic_p), format!("{:?}", basic_t), String::new()));
            }
            // lines
            let lp: Vec<&str> = p.lines().collect();
            let lt = std::panic::catch_unwind(|| t.lines().collect::<Vec<&str>>());
            match &lt {
                Ok(lt) => {
                    if &lp != lt {
                        rep.violation(viol("C13", "lines", s, what.clone(), a, b, format!("{:?}", lp), format!("{:?}", lt), String::new()));
                    }
                }
                Err(_) => rep.violation(viol("C13", "lines-panic", s, what.clone(), a, b, format!("{:?}", lp), "panic".into(), String::new())),
            }
            let lsp: Vec<(usize, usize)> = p.lines_span().map(|x| (x.start(), x.end())).collect();
            let lst = std::panic::catch_unwind(|| t.lines_span().map(|x| (x.start(), x.end())).collect::<Vec<_>>());
            match &lst {
                Ok(lst) => {
                    if &lsp != lst {
                        rep.violation(viol("C13", "lines-span", s, what.clone(), a, b, format!("{:?}", lsp), format!("{:?}", lst), String::new()));
                    }
                    // the statement itself: every line touched exactly once, in order, covering the span
                    if a < b {
                        let mut ok = !lst.is_empty();
                        let mut prev_end = None;
                        for (i, (ls, le)) in lst.iter().enumerate() {
                            if let Some(pe) = prev_end {
                                ok &= *ls == pe;
                            }
                            if i == 0 {
                                ok &= *ls <= a;
                            }
                            ok &= ls < le || (ls == le && i == 0);
                            // a line ends at LF or at end of input
                            ok &= *le == n || s.as_bytes()[*le - 1] == b'\n';
                            prev_end = Some(*le);
                        }
                        if let (Some(first), Some(last)) = (lst.first(), lst.last()) {
                            ok &= first.0 <= a && last.1 >= b;
                            ok &= first.0 == 0 || s.as_bytes()[first.0 - 1] == b'\n';
                        }
                        if !ok {
                            rep.violation(viol("C13", "lines-statement", s, what.clone(), a, b, "lines tile the touched lines once, in order".into(), format!("{:?}", lst), String::new()));
                        }
                    }
                }
                Err(_) => rep.violation(viol("C13", "lines-span-panic", s, what.clone(), a, b, format!("{:?}", lsp), "panic".into(), String::new())),
            }
            rep.outcome(format!("{}:{}", lp.len(), b - a));
            // sub-ranges, all RangeBounds forms
            let len = b - a;
            for x in 0..=len + 1 {
                for y in 0..=len + 1 {
                    let forms: Vec<(&str, Option<(usize, usize)>, Option<(usize, usize)>)> = vec![
                        ("x..y", pr(p.get(x..y)), tr(t.get(x..y))),
                        ("x..=y", pr(p.get(x..=y)), tr(t.get(x..=y))),
                        ("(Excluded(x),Excluded(y))", pr(p.get((Bound::Excluded(x), Bound::Excluded(y)))), tr(t.get((Bound::Excluded(x), Bound::Excluded(y))))),
                        ("(Excluded(x),Included(y))", pr(p.get((Bound::Excluded(x), Bound::Included(y)))), tr(t.get((Bound::Excluded(x), Bound::Included(y))))),
                    ];
                    for (name, e, g) in forms {
                        rep.cases += 1;
                        if e != g {
                            rep.violation(viol("C13", "get", s, format!("{}.get({}) x={} y={}", what, name, x, y), a, b, format!("{:?}", e), format!("{:?}", g), String::new()));
                        }
                    }
                }
                let forms: Vec<(&str, Option<(usize, usize)>, Option<(usize, usize)>)> = vec![
                    ("x..", pr(p.get(x..)), tr(t.get(x..))),
                    ("..x", pr(p.get(..x)), tr(t.get(..x))),
                    ("..=x", pr(p.get(..=x)), tr(t.get(..=x))),
                    ("(Excluded(x),Unbounded)", pr(p.get((Bound::Excluded(x), Bound::Unbounded))), tr(t.get((Bound::Excluded(x), Bound::Unbounded)))),
                ];
                for (name, e, g) in forms {
                    rep.cases += 1;
                    if e != g {
                        rep.violation(viol("C13", "get", s, format!("{}.get({}) x={}", what, name, x), a, b, format!("{:?}", e), format!("{:?}", g), String::new()));
                    }
                }
            }
            rep.cases += 1;
            if pr(p.get(..)) != tr(t.get(..)) {
                rep.violation(viol("C13", "get", s, format!("{}.get(..)", what), a, b, format!("{:?}", pr(p.get(..))), format!("{:?}", tr(t.get(..))), String::new()));
            }
        }
    }
    // merge_spans and equality / hash on all ordered pairs of valid spans
    for &(a1, b1) in &valid {
        for &(a2, b2) in &valid {
            rep.cases += 1;
            let (p1, p2) = (pest::Span::new(s, a1, b1).unwrap(), pest::Span::new(s, a2, b2).unwrap());
            let (t1, t2) = (pest_typed::Span::new(s, a1, b1).unwrap(), pest_typed::Span::new(s, a2, b2).unwrap());
            let e = pr(pest::merge_spans(&p1, &p2));
            let g = tr(pest_typed::merge_spans(&t1, &t2));
            // the statement: succeeds exactly for overlapping or adjacent spans, yields the hull
            let stmt = if a1.max(a2) <= b1.min(b2) { Some((a1.min(a2), b1.max(b2))) } else { None };
            if e != g || g != stmt {
                rep.violation(viol("C13", "merge-spans", s, format!("merge_spans({}..{}, {}..{})", a1, b1, a2, b2), a1, b1, format!("pest {:?} statement {:?}", e, stmt), format!("{:?}", g), String::new()));
            }
            let eq = t1 == t2;
            if eq != ((a1, b1) == (a2, b2)) || (eq && h(&t1) != h(&t2)) || ((p1 == p2) != eq) {
                rep.violation(viol("C13", "span-eq-hash", s, format!("{}..{} == {}..{}", a1, b1, a2, b2), a1, b1, format!("{}", (a1, b1) == (a2, b2)), format!("eq={} hash_eq={}", eq, h(&t1) == h(&t2)), String::new()));
            }
        }
    }
    // spans of two different input objects that start at the same address (`s` and a prefix of `s`)
    for k in 0..n {
        if !s.is_char_boundary(k) {
            continue;
        }
        let pre = &s[..k];
        for &(a, b) in &valid {
            if b > k {
                continue;
            }
            rep.cases += 1;
            let (p1, p2) = (pest::Span::new(s, a, b).unwrap(), pest::Span::new(pre, a, b).unwrap());
            let (t1, t2) = (pest_typed::Span::new(s, a, b).unwrap(), pest_typed::Span::new(pre, a, b).unwrap());
            let eq = t1 == t2;
            if eq != (p1 == p2) || (eq && h(&t1) != h(&t2)) {
                rep.violation(viol("C13", "span-eq-hash-across-objects", s, format!("Span::new(s,{},{}) == Span::new(&s[..{}],{},{})", a, b, k, a, b), a, b, format!("{}", p1 == p2), format!("eq={} hash_eq={}", eq, h(&t1) == h(&t2)), String::new()));
            }
        }
    }
    if rep.samples.len() < 2 && s.contains('\n') && n >= 3 && s.is_char_boundary(1) {
        let t = pest_typed::Span::new(s, 1, n).unwrap();
        let mut j = J::obj();
        j.set("string", J::s(&enumerate::escape(s)));
        j.set("span", J::s(&format!("1..{}", n)));
        j.set("lines", J::s(&format!("{:?}", t.lines().collect::<Vec<_>>())));
        rep.sample(j);
    }
}

pub fn run(o: &Opts) -> Report {
    let alpha = ['\n', '\r', 'a', 'é', '€'];
    let n = if o.thorough { 6 } else { 4 };
    let strings = enumerate::strings(&alpha, n);
    let mut rep = par(&strings, |s, rep| check(s, rep));
    rep.max_len_done = n;
    rep.rules = strings.len() as u64;
    // characters by encoding, each in three small contexts
    let sweep = crate::common::encoding_sweep(o.thorough);
    let r3 = par(&sweep, |c, rep| {
        for s in [format!("{}", c), format!("a{}\n{}", c, c), format!("{}\r\na", c)] {
            check(&s, rep);
        }
    });
    rep.cells.insert("characters_swept_by_encoding".into(), sweep.len() as u64);
    rep.merge(r3, 8);
    rep
}
